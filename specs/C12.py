"""C12 - Paxos family: at most one value per instance, and a proposed one.

Per-node clauses every Paxos safety proof rests on (DESIGN.md section 3-C12: A1 acceptor, A2 proposer,
A3 learner, A4 validity), proved on the real handlers of paxos.py; the cross-node composition is the
classical paper argument, its combinatorial steps (ballot order, quorum intersection) are lemmas.
"""
from pyvc.spec import *

from pyvc import ctx as _ctx  # noqa: E402
from pyvc.heap import Box, _default_of  # noqa: E402
from pyvc.types import Ty  # noqa: E402

# the engine records str(goal)[:600] of every obligation; the goals here contain store chains over a dozen
# freshly created events, and z3's python pretty printer spends more time on them than the solver does.
# Bounding the printer only abbreviates that recorded text (this process only).
z3.set_option(max_depth=10, max_args=12, max_lines=30, max_visited=2000)

F_PAXOS = "happysimulator/components/consensus/paxos.py"
F_LOCK = "happysimulator/components/consensus/distributed_lock.py"

# ---------------------------------------------------------------------------- ghost statements / loop contracts
# _start_phase2 scans the promises of a ballot for the highest accepted ballot.  Ghost: g_n counts the
# responses visited, self.g_pick is the index of the response whose value is currently chosen (-1: none,
# the client's value stands).  (The helpers used by the invariant are defined further down.)
ghost(F_PAXOS, "PaxosNode._start_phase2", "chosen_value = self._proposed_values.get(ballot_number)", "g_n = 0; self.g_pick = -1")
ghost(F_PAXOS, "PaxosNode._start_phase2", "ab = resp.get('accepted_ballot')", "g_n = g_n + 1", where="before")
ghost(F_PAXOS, "PaxosNode._start_phase2", "chosen_value = resp['accepted_value']", "self.g_pick = g_n - 1")

loop(F_PAXOS, "PaxosNode._start_phase2", 1, modifies=[("PaxosNode", "g_pick")],
     types={"g_n": lambda: Int, "highest_accepted_ballot": lambda: Opt(BTUP), "chosen_value": lambda: Any}, inv=[
    ("ghost-counter-is-the-index", lambda L: L.g_n == L.i),
    ("chosen-value-is-that-of-the-highest-accepted-ballot-seen-else-the-clients", lambda L: pick_ok(
        L.self, seq_term(L.seq), L.i, L.self.g_pick, L.chosen_value, registered_value(L.old(L.self), L.ballot_number),
        L.highest_accepted_ballot))])

# DistributedLock._wake_next_waiter pops waiters in arrival order until it meets one whose future is still pending
# (that one is granted the lock and the loop is left by `break`, so at every loop head nothing was granted yet)
loop(F_LOCK, "DistributedLock._wake_next_waiter", 1, modifies=[("_LockState", "waiters")], inv=[
    ("remaining-queue-is-a-suffix-of-arrival-order", lambda L: mk_bool(z3.SuffixOf(q_of(L.state), q_of(L.old(L.state))))),
    ("every-waiter-passed-over-had-already-been-answered", lambda L: skipped_were_resolved(
        L.old(L.state), mk_num(z3.Length(q_of(L.old(L.state))) - z3.Length(q_of(L.state))))),
    ("queues-of-other-locks-untouched", lambda L: only_this_lock_state_changes(L.old(L.state)._frozen, L.state, ("waiters",)))])

F_FLEX = "happysimulator/components/consensus/flexible_paxos.py"
F_MULTI = "happysimulator/components/consensus/multi_paxos.py"
# _handle_prepare of the slot-based nodes copies the whole log into the promise (a list comprehension over a list of
# symbolic length): cut, the copy is an opaque list
loop(F_FLEX, "FlexiblePaxosNode._handle_prepare", "comp1", modifies=[], inv=[], types={"entries": lambda: Seq(Any)})
loop(F_MULTI, "MultiPaxosNode._handle_prepare", "comp1", modifies=[], inv=[], types={"entries": lambda: Seq(Any)})
F_LE = "happysimulator/components/consensus/leader_election.py"
# LeaderElection._handle_election_message forwards whatever messages the strategy answers with (any number): the loop
# only builds events, it writes no state
# (engine aid, no claim: the local result list starts as a symbolic empty list so that `events.extend(<symbolic list>)` is modelled)
ghost(F_LE, "LeaderElection._handle_timeout_check", "events: list[Event] = []", "import specs.C12 as _S; events = _S.empty_events()")
loop(F_LE, "LeaderElection._handle_timeout_check", 1, modifies=[], types={"events": lambda: Seq(Ref(Event))}, inv=[
    ("only-heartbeats-naming-this-node-and-its-current-term-are-built", lambda L: heartbeats_ok(L.self, L.events))])
LE_LOOP = loop(F_LE, "LeaderElection._handle_election_message", 1, modifies=[], inv=[],
               types={"events": lambda: Seq(Ref(Event))})      # (.elem is set where the message type is defined)

from specs.common import *  # noqa: E402,F401

from happysimulator.components.consensus.paxos import Ballot, PaxosNode  # noqa: E402
from happysimulator.components.network.network import Network  # noqa: E402
from happysimulator.core.sim_future import SimFuture  # noqa: E402

PROPERTY = {
    "id": "C12",
    "level": "proof",
    "trusted": ["heap typing of the fields declared in specs/C12.py and specs/common.py"],
    "assumptions": COMMON_ASSUMPTIONS + [
        "configuration: clusters of 3..5 nodes (class invariant cluster-of-3-to-5: 2..4 peers); peers carry distinct "
        "names different from the node's own",
        "well-formed messages: every handler requires the keys its sender writes (ballot_number/ballot_node, value, from, "
        "accepted_* of a promise, original_ballot of a retry) - the senders' contracts in this file establish them; "
        "the network may delay, reorder, drop and partition but neither forges nor duplicates messages",
        "start_phase1() is invoked at most once per ballot (Kick/propose once, _handle_retry once per fresh ballot), so the "
        "promises recorded for a ballot come from distinct acceptors; the count is len(list), distinctness of promisers is "
        "not re-checked by the code (A3 distinctness of *acceptors* is: a set per ballot after the repair)",
        "SimFuture.resolve (stub): the first resolve fixes the value, later ones are ignored; resuming a parked process is "
        "engine machinery outside this property",
        "random.random() returns a real in [0, 1) (stub); retry_delay >= 0 (precondition of _handle_nack)",
        "PaxosNode._start_phase2 is used as a contract inside _handle_promise: what is assumed after the call is exactly the "
        "class invariants, the two-state guarantees and the frame proved by the tasks PaxosNode._start_phase2[k-nodes]",
        "promise records are dict literals with exactly the keys from/accepted_ballot/accepted_value (type FixedRec: storing "
        "any other key set is OUT-OF-REACH, so the typing is checked, not assumed)",
        "constructor contract of FlexiblePaxosNode: Entity.__init__ is reduced to `self.name = name` (the detached state "
        "`_clock = None` is outside the attached-entity typing of specs/common.py)",
        "DistributedLock._grant_lock: the state passed in belongs to this manager or is fresh (its token is below the "
        "counter) and lease_duration >= 0",
        "DistributedLock: lease_duration >= 0 (class invariant `configuration-lease-nonnegative`, a constructor argument that "
        "is never written); heap typing: the lease event stored in a lock state exists at entry (is not an object allocated "
        "later); SimFuture.resolve runs no callback that re-enters the lock manager (stub); LockAcquireRequest messages carry "
        "no reply_future (the optional reply plumbing of _handle_acquire_request is not modelled); the lease-expiry event "
        "created by a grant is only stored (`_pending_expiry`) - scheduling it is left to the caller by the component's design",
        "DistributedLock._grant_lock is used as a contract by every caller (try_acquire, acquire, _wake_next_waiter, "
        "_release_lock, release, _handle_lease_expiry, handle_event): what is assumed after the call is exactly what the task "
        "DistributedLock._grant_lock proves (token, holder, lease event, frame); its modifies list is that frame",
        "LeaderElection: heartbeats carry leader and term (well-formed-heartbeat); the election strategy is used through its "
        "interface only - its answers are arbitrary (so the clauses hold for every strategy) except that get_election_messages "
        "returns at most 3 messages (bounded: the code iterates that list natively) and handle_election_message's answer has "
        "the key response_messages; Network.send (stub) builds one event of the given type addressed to the network, "
        "stamped with source/destination, copying a literal {leader, term} payload; LeaderElection._start_election is used "
        "as a contract inside _handle_election_message and _handle_timeout_check (proved by its own task)",
        "slot-based nodes (FlexiblePaxosNode, MultiPaxosNode): clusters of 3..5 nodes; well-formed messages (ballot keys, slot, "
        "command); Log invariant 0 <= commit_index <= len(entries) (focus object); _become_leader is used through an ASSUMED "
        "contract (never lowers the ballot, only appends to the log) and _apply_committed through an assumed frame (applied "
        "counter, futures) - neither is verified here; the promise's log copy (list comprehension) is an opaque list",
        "cross-node composition (agreement = A1 + A2 + A3 + quorum intersection, validity = value provenance clauses) is the "
        "classical Paxos argument over the proved per-node clauses; it is not machine-checked.  Liveness clauses of the "
        "statement (eventually decided / applied) are not decided by this check; the bounded stand-in only observes that "
        "every sampled run reaches a decision",
    ],
    # (wall-clock backstop only; the tasks that carry the OPEN known findings refute slowly - with the thorough tier's 4x
    #  solver budgets each stage of a refutation runs 4x longer before it gives up)
    "task_timeout": 4800 if ("thorough" in __import__("sys").argv
                             or __import__("os").environ.get("VERIF_TIER") == "thorough") else 900,
}


def _native_paxos_runs(seed, tier):
    """bounded stand-in: the real PaxosNode cluster inside a real Simulation (fresh interpreter, no proxies)"""
    import json
    import os
    import subprocess
    n = 120 if tier == "quick" else 1500
    env = dict(os.environ, PYTHONPATH=_ctx.REPO)
    p = subprocess.run(["/venv/bin/python", "/verif/findings/c12_paxos.py", "--json", str(seed), str(seed + n)],
                       capture_output=True, text=True, timeout=900, env=env, cwd="/verif")
    for ln in p.stdout.splitlines():
        if ln.startswith("C12-RESULT "):
            return json.loads(ln[len("C12-RESULT "):])
    raise RuntimeError(f"native Paxos stand-in failed: {p.stderr[-600:]}")


PROPERTY["bounded"] = [{
    "name": "paxos-cluster-random-delays",
    "bound": "120 (quick) / 1500 (thorough) seeds x {(3 nodes, 2 proposers), (3,3), (4,3), (5,2), (5,3)}: per-message delay "
             "drawn from {0.01, 0.05, 0.2, 0.6, 1.5} s, proposal times from {0, 0.02, 0.1, 0.3} s, retry_delay 0.3 s, 20 s horizon; "
             "checks agreement, validity (decided value was proposed) and stability after every event",
    "fn": _native_paxos_runs}]


# ============================================================================ 0. message typing
# (local copies of the record / event-context types of specs/C11.py: heterogeneous dicts with literal
# keys - the "metadata" of an event - as records with a presence set)
class RecFieldLoc:
    def __init__(self, parent, rty, k):
        self.parent, self.rty, self.k = parent, rty, k

    def get(self):
        return self.rty.acc(self.k)(self.parent.get())

    def set(self, t):
        self.parent.set(self.rty.rebuild(self.parent.get(), vals={self.k: t}))


class Record(Ty):
    """dict with literal string keys of fixed value types: presence set + one typed slot per key"""

    def __init__(self, name, fields):
        self.name, self.fields = name, dict(fields)
        d = z3.Datatype("Rec_" + name)
        d.declare("mk", ("has", z3.ArraySort(z3.StringSort(), z3.BoolSort())),
                  *[("f_" + k, ty.sort()) for k, ty in self.fields.items()])
        self.dt = d.create()

    def sort(self):
        return self.dt

    def acc(self, k):
        return getattr(self.dt, "f_" + k)

    def has(self, term, k):
        return z3.Select(self.dt.has(term), z3.StringVal(k))

    def empty(self):
        return self.dt.mk(z3.K(z3.StringSort(), z3.BoolVal(False)), *[_default_of(ty.sort()) for ty in self.fields.values()])

    def rebuild(self, m, has=None, vals=None):
        vals = vals or {}
        return z3.simplify(self.dt.mk(has if has is not None else self.dt.has(m),
                                      *[vals.get(k, self.acc(k)(m)) for k in self.fields]))

    def wrap(self, term, loc=None):
        return RecProxy(loc if loc is not None else Box(term), self)

    def unwrap(self, v):
        if isinstance(v, RecProxy) and v._ty is self:
            return v._loc.get()
        if isinstance(v, dict):
            p = RecProxy(Box(self.empty()), self)
            for k, x in v.items():
                p[k] = x
            return p._loc.get()
        raise OutOfReach(f"{type(v).__name__} stored where record {self.name} is declared")


class RecProxy:
    def __init__(self, loc, ty):
        self._loc, self._ty = loc, ty

    @property
    def term(self):
        return self._loc.get()

    def _key(self, k):
        if not isinstance(k, str) or k not in self._ty.fields:
            raise OutOfReach(f"key {k!r} is not declared in record {self._ty.name}")
        return k

    def _val(self, k):
        return self._ty.fields[k].wrap(self._ty.acc(k)(self.term), RecFieldLoc(self._loc, self._ty, k))

    def get(self, k, default=None):
        k = self._key(k)
        if not _ctx.cur().branch(self._ty.has(self.term, k), site="rec:" + k):
            return default
        return self._val(k)

    def __getitem__(self, k):
        k = self._key(k)
        if not _ctx.cur().branch(self._ty.has(self.term, k), site="rec:" + k):
            raise KeyError(k)
        return self._val(k)

    def __contains__(self, k):
        return _ctx.cur().branch(self._ty.has(self.term, self._key(k)), site="rec:" + k)

    def __setitem__(self, k, v):
        k = self._key(k)
        m = self.term
        self._loc.set(self._ty.rebuild(m, has=z3.Store(self._ty.dt.has(m), z3.StringVal(k), z3.BoolVal(True)),
                                       vals={k: self._ty.fields[k].unwrap(v)}))

    def update(self, other):
        if isinstance(other, dict):
            for k, v in other.items():
                self[k] = v
            return
        if isinstance(other, RecProxy) and other._ty is self._ty:
            m, o, ty = self.term, other.term, self._ty
            self._loc.set(ty.rebuild(m, has=z3.SetUnion(ty.dt.has(m), ty.dt.has(o)),
                                     vals={k: z3.If(ty.has(o, k), ty.acc(k)(o), ty.acc(k)(m)) for k in ty.fields}))
            return
        raise OutOfReach("record.update with an unmodelled argument")

    def __bool__(self):
        return _ctx.cur().branch(self._ty.dt.has(self.term) != z3.K(z3.StringSort(), z3.BoolVal(False)), site="rec:bool")

    def copy(self):
        return RecProxy(Box(self.term), self._ty)

    __hash__ = None


OPTSTR = Opt(Str)
OPTINT = Opt(Int)
BTUP = Tuple(Int, Str)                      # (number, node_id) as carried inside promise records
MSG = Record("paxosmsg", {
    "source": Str, "destination": Str, "from": Str,
    "ballot_number": Int, "ballot_node": Str,
    "accepted_ballot_number": OPTINT, "accepted_ballot_node": OPTSTR, "accepted_value": Any,
    "highest_ballot_number": Int, "highest_ballot_node": Str,
    "value": Any, "original_ballot": Int,
    "lock_name": Str, "fencing_token": Int, "requester": Str,
    "leader": Str, "term": Int,
    "slot": Int, "command": Any, "commit_index": Int, "log_entries": Any, "self_heartbeat": Any, "log_length": Int,
})
M = MSG.dt


class CtxProxy:
    """Event.context: only the 'metadata' entry is modelled ('id'/'created_at' are write-only here)"""

    def __init__(self, loc):
        self._loc = loc

    def _md(self, k):
        if k != "metadata":
            raise OutOfReach(f"event context key {k!r} is not modelled in specs/C12.py")
        return RecProxy(self._loc, MSG)

    def get(self, k, default=None):
        if k == "reply_future":
            # DistributedLock._handle_acquire_request: the optional reply plumbing (a second future that is resolved with
            # whatever the acquire future resolves to) is not modelled - listed assumption: requests carry none
            return default
        return self._md(k)

    __getitem__ = _md

    def setdefault(self, k, v=None):
        return v if k in ("id", "created_at") else self._md(k)

    def copy(self):
        return CtxProxy(Box(self._loc.get()))

    __hash__ = None


class _CtxTy(Ty):
    name = "EventContext"

    def sort(self):
        return MSG.sort()

    def wrap(self, term, loc=None):
        return CtxProxy(loc if loc is not None else Box(term))

    def unwrap(self, v):
        if isinstance(v, CtxProxy):
            return v._loc.get()
        if isinstance(v, dict) and set(v) <= {"id", "created_at", "metadata"}:
            return MSG.unwrap(v.get("metadata", {}))
        raise OutOfReach(f"{type(v).__name__} stored as event context")


CTX = _CtxTy()
cls(Event, fields={"context": CTX})          # overrides the opaque Map(Str, Any) typing of specs/common.py (this check only)


def md(event, state=None):
    """raw MSG term of an event's metadata"""
    return field_term(event, "context", state)


def mhas(m, *keys):
    return mk_bool(z3.And(*[MSG.has(m, k) for k in keys]))


def mget(m, k):
    """wrapped scalar field of a raw message term (no fork for scalar types)"""
    return MSG.fields[k].wrap(MSG.acc(k)(m))


def zi(x):
    return num(x)


def zs(x):
    """raw z3 string term of a python / symbolic string"""
    return Str.unwrap(x)


def ite_b(c, a, b):
    return implies(c, a) & implies(Not(c), b)


def pb(x):
    """python bool -> symbolic bool (so that `&` keeps a clause one formula)"""
    return mk_bool(z3.BoolVal(x)) if isinstance(x, bool) else x


# ============================================================================ A. ballots
# Ballot is a frozen, ordered dataclass: the generated comparisons are the lexicographic order on
# (number, node_id).  Every clause below speaks about that order through b_lt / b_le on raw terms.
BALLOT = valueclass("Ballot", [Ballot], [("number", Int), ("node_id", Str)])
BD = BALLOT.dt
OPTBALLOT = Opt(BALLOT)
OB = OPTBALLOT.dt


def b_lt_raw(n1, s1, n2, s2):
    return z3.Or(n1 < n2, z3.And(n1 == n2, s1 < s2))


def b_le_raw(n1, s1, n2, s2):
    return z3.Or(n1 < n2, z3.And(n1 == n2, s1 <= s2))


def b_lt(a, b):
    """a < b for two Ballot objects (symbolic fields)"""
    return mk_bool(b_lt_raw(zi(a.number), zs(a.node_id), zi(b.number), zs(b.node_id)))


def b_le(a, b):
    return mk_bool(b_le_raw(zi(a.number), zs(a.node_id), zi(b.number), zs(b.node_id)))


def b_eq(a, b):
    return (a.number == b.number) & (a.node_id == b.node_id)


for _op, _spec_fn in (("__lt__", lambda s: b_lt(s.self, s.other)), ("__le__", lambda s: b_le(s.self, s.other)),
                      ("__gt__", lambda s: b_lt(s.other, s.self)), ("__ge__", lambda s: b_le(s.other, s.self)),
                      ("__eq__", lambda s: b_eq(s.self, s.other))):
    fn(Ballot, _op, self_ty=BALLOT, args={"other": BALLOT}, returns=Bool, inv=False, ensures=[
        ("lexicographic-on-number-then-node", lambda s, f=_spec_fn: iff(s.result, f(s)))])


def _ballot_order_lemma():
    N = [fresh(Int, f"n{i}") for i in range(3)]
    S = [fresh(Str, f"s{i}") for i in range(3)]

    def lt(i, j):
        return mk_bool(b_lt_raw(zi(N[i]), zs(S[i]), zi(N[j]), zs(S[j])))

    def eq(i, j):
        return (N[i] == N[j]) & (S[i] == S[j])
    oblige("irreflexive", Not(lt(0, 0)))
    oblige("transitive", implies(lt(0, 1) & lt(1, 2), lt(0, 2)))
    oblige("total", lt(0, 1) | lt(1, 0) | eq(0, 1))
    oblige("antisymmetric", Not(lt(0, 1) & lt(1, 0)))
    oblige("ballots-of-distinct-proposers-differ", implies(S[0] != S[1], Not(eq(0, 1))))


lemma("ballot-order-is-a-strict-total-order", _ballot_order_lemma)

# ============================================================================ B. single-decree Paxos node
cls(SimFuture, fields={"_resolved": Bool, "_value": Any, "_parked_process": Any, "_parked_event_type": Any,
                       "_parked_daemon": Bool, "_parked_target": Any, "_parked_on_complete": Any,
                       "_parked_context": Any, "_settle_callbacks": Seq(Any)})
cls(Network, fields={})

class FixedRec(Ty):
    """dict literal with a fixed set of keys, all always present (both sites that build a promise record write
    exactly these keys; storing a dict with any other key set is OUT-OF-REACH, so the typing is checked)"""

    def __init__(self, name, fields):
        self.name, self.fields = name, dict(fields)
        d = z3.Datatype("FRec_" + name)
        d.declare("mk", *[("f_" + k, ty.sort()) for k, ty in self.fields.items()])
        self.dt = d.create()

    def sort(self):
        return self.dt

    def acc(self, k):
        return getattr(self.dt, "f_" + k)

    def wrap(self, term, loc=None):
        return FixedRecProxy(term, self)

    def unwrap(self, v):
        if isinstance(v, FixedRecProxy) and v._ty is self:
            return v._t
        if isinstance(v, dict) and set(v) == set(self.fields):
            return self.dt.mk(*[ty.unwrap(v[k]) for k, ty in self.fields.items()])
        raise OutOfReach(f"{type(v).__name__} stored where fixed record {self.name} is declared")


class FixedRecProxy:
    """read-only view (the code never mutates a stored promise record)"""

    def __init__(self, t, ty):
        self._t, self._ty = t, ty

    def __getitem__(self, k):
        if k not in self._ty.fields:
            raise KeyError(k)
        return self._ty.fields[k].wrap(self._ty.acc(k)(self._t))

    def get(self, k, default=None):
        return self[k] if k in self._ty.fields else default

    __hash__ = None


PROMISE = FixedRec("promise", {"from": OPTSTR, "accepted_ballot": Opt(BTUP), "accepted_value": Any})
NODE = Ref(PaxosNode)
FUTS = Map(Int, Ref(SimFuture))
cls(PaxosNode, fields={
    "_network": Ref(Network), "_peers": Seq(NODE), "_retry_delay": Real,
    "_promised_ballot": OPTBALLOT, "_accepted_ballot": OPTBALLOT, "_accepted_value": Any,
    "_current_ballot": BALLOT, "_proposal_futures": FUTS,
    "_phase1_responses": Map(Int, Seq(PROMISE)), "_phase2_responses": Map(Int, Int),
    "_proposed_values": Map(Int, Any),
    # the implementation's record of the design's ghost map `sent_accept` (own ballot number -> the one value
    # offered in phase 2) and of `accepters` (distinct acceptor ids per ballot); both fields are introduced by
    # fixes/C12_paxos-phase2-once.diff - on the unrepaired tree nothing maintains them and the A2/A3 clauses fail
    "_accept_sent": Map(Int, Any), "_phase2_acceptors": Map(Int, Set(Str)),
    "_decided": Bool, "_decided_value": Any,
    "_proposals_started": Int, "_proposals_succeeded": Int, "_proposals_failed": Int,
    "_promises_received": Int, "_nacks_received": Int, "_accepts_received": Int},
    ghost={"g_pick": Int},
    const=["_network", "_peers", "_retry_delay"])
ACCS = Map(Int, Set(Str))
SENT = Map(Int, Any)
P1 = Map(Int, Seq(PROMISE))
OBT = Opt(BTUP).dt


def map_has(ty, m, k):
    """raw: key k (python / symbolic int) is in the raw map term m of Map type ty"""
    return z3.Select(ty.dt.dom(m), zi(k))


def map_val(ty, m, k):
    return z3.Select(ty.dt.val(m), zi(k))


def any_or_none(ty, m, k):
    """raw Any term of m.get(k) (python None when absent)"""
    return z3.If(map_has(ty, m, k), map_val(ty, m, k), Any.unwrap(None))


def sent_accept(o):
    return field_term(o, "_accept_sent")


def accepters(o, b):
    """raw Array(Str, Bool): the distinct acceptors recorded for own ballot number b"""
    return Set(Str).dt.dom(map_val(ACCS, field_term(o, "_phase2_acceptors"), b))


def n_accepters(o, b):
    return mk_num(Set(Str).dt.size(map_val(ACCS, field_term(o, "_phase2_acceptors"), b)))


def responses(o, b):
    """raw Seq(PROMISE) term: the promises recorded for own ballot number b"""
    return map_val(P1, field_term(o, "_phase1_responses"), b)


def ab_none(r):
    """the raw promise record r reports no accepted ballot"""
    return OBT.is_none(PROMISE.acc("accepted_ballot")(r))


def ab_of(r):
    """raw (number, node) tuple term of the accepted ballot a promise record reports"""
    return OBT.val(PROMISE.acc("accepted_ballot")(r))


def tup_le(x, y):
    return b_le_raw(BTUP.acc(0)(x), BTUP.acc(1)(x), BTUP.acc(0)(y), BTUP.acc(1)(y))


def pick_ok(o, seq, upto, pick, chosen, orig_t, highest="unset"):
    """A2 (second half): among the first `upto` promise records of raw sequence `seq`, `pick` is the index of one
    reporting the highest accepted ballot and `chosen` is the value it reports; pick == -1 when none reports an
    accepted ballot, then `chosen` is the value registered for the ballot (raw term orig_t)"""
    p, n = zi(pick), zi(upto)
    ch = Any.unwrap(chosen)
    none_case = forall(Int, lambda k: implies((0 <= k) & mk_bool(k.t < n), mk_bool(ab_none(seq[k.t]))), "k") & mk_bool(ch == orig_t)
    rp = seq[p]
    some_case = (mk_bool(z3.And(0 <= p, p < n, z3.Not(ab_none(rp)), ch == PROMISE.acc("accepted_value")(rp)))
                 & forall(Int, lambda k: implies((0 <= k) & mk_bool(k.t < n), mk_bool(z3.Or(ab_none(seq[k.t]), tup_le(ab_of(seq[k.t]), ab_of(rp))))), "k"))
    ok = mk_bool(p >= -1) & implies(mk_bool(p == -1), none_case) & implies(mk_bool(p != -1), some_case)
    if highest != "unset":
        if highest is None:
            ok = ok & mk_bool(p == -1)
        else:
            ok = ok & mk_bool(z3.And(p != -1, ab_of(rp) == BTUP.unwrap(highest)))
    return ok


def offered_ballots_have_acceptor_sets(o):
    return forall(Int, lambda b: implies(mk_bool(map_has(SENT, sent_accept(o), b)),
                                         mk_bool(map_has(ACCS, field_term(o, "_phase2_acceptors"), b))), "b")


def offers_never_change(old, new):
    """A2 (first half): the value offered in phase 2 of a ballot is fixed once and for all - every Accept of that
    ballot carries it (see `_start_phase2`: Accepts are created only together with the record)"""
    return forall(Int, lambda b: implies(mk_bool(map_has(SENT, sent_accept(old), b)),
                                         mk_bool(z3.And(map_has(SENT, sent_accept(new), b),
                                                        map_val(SENT, sent_accept(new), b) == map_val(SENT, sent_accept(old), b)))), "b")


def promised(o):
    """raw Opt(Ballot) term of the promise register"""
    return field_term(o, "_promised_ballot")


def accepted(o):
    return field_term(o, "_accepted_ballot")


def ob_none(t):
    return mk_bool(OB.is_none(t))


def ob_le(a, b):
    """a <= b on raw Opt(Ballot) terms, None below everything"""
    va, vb = OB.val(a), OB.val(b)
    return mk_bool(z3.Or(OB.is_none(a), z3.And(z3.Not(OB.is_none(b)), b_le_raw(
        BD.number(va), BD.node_id(va), BD.number(vb), BD.node_id(vb)))))


NODE_INV = [
    # configuration: the quantifier of the property ranges over clusters of 3..5 nodes
    ("cluster-of-3-to-5", lambda o: (2 <= slen(o._peers)) & (slen(o._peers) <= 4)),
    # A1: whatever was accepted was accepted under a promise at least as high
    ("accepted-ballot-never-above-promise", lambda o: ob_le(accepted(o), promised(o))),
    ("own-ballots-carry-own-name", lambda o: o._current_ballot.node_id == o.name),
    ("every-offered-ballot-has-its-acceptor-set", offered_ballots_have_acceptor_sets),
    ("registered-ballots-are-not-above-the-current-one", lambda o: forall(Int, lambda b: implies(
        mk_bool(map_has(SENT, field_term(o, "_proposed_values"), b)), b <= o._current_ballot.number), "b")),
    # (so a fresh ballot - always above the current one - starts with no offer on record)
    ("offered-ballots-are-not-above-the-current-one", lambda o: forall(Int, lambda b: implies(
        mk_bool(map_has(SENT, sent_accept(o), b)), b <= o._current_ballot.number), "b")),
]
NODE_GUAR = [
    ("A1-promise-never-decreases", lambda old, new: ob_le(promised(old), promised(new))),
    ("A1-accepted-ballot-never-decreases", lambda old, new: ob_le(accepted(old), accepted(new))),
    ("A2-value-offered-for-a-ballot-never-changes", offers_never_change),
    ("own-ballot-numbers-never-decrease", lambda old, new: new._current_ballot.number >= old._current_ballot.number),
    ("A3-decision-is-stable", lambda old, new: implies(old._decided, new._decided & (new._decided_value == old._decided_value))),
]
cls(PaxosNode, inv=NODE_INV, guarantee=NODE_GUAR)

fn(PaxosNode, "quorum_size", returns=Int, modifies=[], ensures=[
    ("strict-majority-of-the-cluster", lambda s: (2 * s.result > slen(s.self._peers) + 1)
        & (2 * (s.result - 1) <= slen(s.self._peers) + 1)),
    ("pure", lambda s: unchanged(s, s.self))])

# ---- helpers over the messages a handler returns ----------------------------------------------------
stub_of(SimFuture, "resolve", args={"value": Any}, modifies=["_resolved", "_value"], ensures=[
    lambda s: ite_b(s.old(s.self)._resolved, unchanged(s, s.self, "_resolved", "_value"),
                    s.self._resolved & any_eq(s.self._value, s.value))])      # (any_eq: the value may be a non-opaque object)
FUT_RESOLVE = (SimFuture, "resolve")


def resolved_values():
    """the values passed to SimFuture.resolve on this path (ghost call trace of the stub)"""
    tr = _ctx.cur().ghost_args.get("trace", [])
    return [vals["value"] for (q, vals, _r) in tr if q == "SimFuture.resolve"]


def any_eq(a, b):
    """equality of two opaque values (python None / concrete values are injected first)"""
    return mk_bool(Any.unwrap(a) == Any.unwrap(b))


def msgs(s):
    """the (concrete-length: peers are iterated natively, 2..4 of them) list of events a handler returned"""
    r = s.result
    return [] if r is None else list(r)


def n_peers(o):
    """number of peers as a python int (the peer list has a concrete length on every explored path
    once it was iterated); None when still symbolic"""
    n = slen(o._peers)
    if isinstance(n, int):
        return n
    t = z3.simplify(num(n))
    return t.as_long() if z3.is_int_value(t) else None


def to_peer_via_network(s, e, j=None):
    """e is addressed to the network, from this node, stamped now, not cancelled"""
    m = md(e)
    ok = same(e.target, s.self._network) & (ns(e.time) == now_ns(s.self._network)) & Not(e._cancelled) & e.daemon
    ok = ok & mhas(m, "source", "destination") & (mget(m, "source") == s.self.name)
    if j is not None:
        ok = ok & (mget(m, "destination") == peer_at(s.self, j).name)
    return ok


def peer_at(o, j):
    """the j-th peer (no fork): proxy over the raw sequence element"""
    return ObjProxy(seq_term(o._peers)[zi(j)], PaxosNode)


def one_per_peer(s, kind, body, es=None):
    """the events `es` (default: everything returned) are exactly one `kind` message per peer, in peer
    order, each satisfying body(raw metadata)"""
    es = msgs(s) if es is None else es
    ok = slen(s.self._peers) == len(es)
    for j, e in enumerate(es):
        ok = ok & (e.event_type == kind) & to_peer_via_network(s, e, j) & body(md(e))
    return ok


# ---- learner (A3) ---------------------------------------------------------------------------------
def _propose_post_fresh(s):
    old = s.old(s.self)
    n = s.self._current_ballot.number
    return implies(Not(old._decided),
                   (n > old._current_ballot.number)
                   & mk_bool(z3.Or(OB.is_none(promised(old)), zi(n) > BD.number(OB.val(promised(old)))))
                   & (s.self._current_ballot.node_id == s.self.name)
                   & contains(s.self._proposed_values, n) & any_eq(s.self._proposed_values.get(n), s.value)
                   & contains(s.self._proposal_futures, n) & same(s.self._proposal_futures.get(n), s.result)
                   & Not(s.result._resolved))


fn(PaxosNode, "propose", args={"value": Any}, uses=[FUT_RESOLVE], ensures=[
    ("after-a-decision-the-future-resolves-with-the-decided-value", lambda s: implies(
        s.old(s.self)._decided, s.result._resolved & (s.result._value == s.self._decided_value) & unchanged(s, s.self))),
    ("fresh-ballot-above-everything-seen-carrying-the-clients-value", _propose_post_fresh),
    ("acceptor-and-learner-state-untouched", lambda s: unchanged(
        s, s.self, "_promised_ballot", "_accepted_ballot", "_accepted_value", "_decided", "_decided_value"))])

fn(PaxosNode, "_handle_decided", args={"event": Ref(Event)},
   requires=[("well-formed-announcement", lambda s: mhas(md(s.event), "value"))],
   ensures=[
    ("learns-exactly-the-announced-value-once", lambda s: ite_b(
        s.old(s.self)._decided, unchanged(s, s.self),
        s.self._decided & (s.self._decided_value == mget(md(s.old(s.event)), "value")))),
    ("acceptor-state-untouched", lambda s: unchanged(s, s.self, "_promised_ballot", "_accepted_ballot", "_accepted_value"))])


def decided_msg(m, value):
    return mhas(m, "value") & any_eq(mget(m, "value"), value)


def _decide_post(s):
    old = s.old(s.self)
    if old._decided:
        return unchanged(s, s.self) & pb(len(s.result) == 0) & pb(len(resolved_values()) == 0)
    ok = s.self._decided & (s.self._decided_value == s.value)
    ok = ok & one_per_peer(s, "PaxosDecided", lambda m: decided_msg(m, s.value))
    for v in resolved_values():
        ok = ok & any_eq(v, s.value)
    return ok


fn(PaxosNode, "_decide", args={"ballot_number": Int, "value": Any}, uses=[FUT_RESOLVE], ensures=[
    ("first-decision-sticks-is-announced-to-every-peer-and-resolves-the-future-with-it", _decide_post),
    ("acceptor-state-untouched", lambda s: unchanged(s, s.self, "_promised_ballot", "_accepted_ballot", "_accepted_value"))])


# ---- acceptor (A1) ----------------------------------------------------------------------------------
def msg_ballot(m):
    """raw Ballot term of the ballot a message carries"""
    return BD.mk(z3.IntVal(0), M.f_ballot_number(m), M.f_ballot_node(m))


def bt_lt(a, b):
    """a < b on raw Ballot terms"""
    return b_lt_raw(BD.number(a), BD.node_id(a), BD.number(b), BD.node_id(b))


def bt_eq(a, b):
    return z3.And(BD.number(a) == BD.number(b), BD.node_id(a) == BD.node_id(b))


def below_promise(o, b):
    """the node has promised a ballot strictly above the raw ballot b"""
    p = promised(o)
    return mk_bool(z3.And(z3.Not(OB.is_none(p)), bt_lt(b, OB.val(p))))


def holds_ballot(t, b):
    """the raw Opt(Ballot) register t holds exactly ballot b"""
    return mk_bool(z3.And(z3.Not(OB.is_none(t)), bt_eq(OB.val(t), b)))


def known_sender(s):
    """some peer carries the name in the request's `source`"""
    req = md(s.old(s.event))
    n = slen(s.self._peers)
    return mhas(req, "source") & exists(Int, lambda j: (0 <= j) & (j < n) & (peer_at(s.self, j).name == mget(req, "source")), "j")


def reply(s, kind):
    """the handler returned exactly one `kind` message, addressed to the sender of the request"""
    es = msgs(s)
    if len(es) != 1:
        return False
    e = es[0]
    return (e.event_type == kind) & to_peer_via_network(s, e) & (mget(md(e), "destination") == mget(md(s.old(s.event)), "source"))


def nack_ok(s, b):
    """a Nack names the refused ballot and the promise that outranks it"""
    if len(msgs(s)) != 1:
        return False
    m = md(msgs(s)[0])
    p = OB.val(promised(s.old(s.self)))
    return (reply(s, "PaxosNack") & mhas(m, "ballot_number", "ballot_node", "highest_ballot_number", "highest_ballot_node")
            & mk_bool(bt_eq(msg_ballot(m), b))
            & mk_bool(z3.And(M.f_highest_ballot_number(m) == BD.number(p), M.f_highest_ballot_node(m) == BD.node_id(p))))


def reports_accepted(o, num_t, node_t, val_t):
    """(num, node, value) - raw Opt(Int), Opt(Str), Any terms - are exactly the node's accepted ballot and value
    (both None while nothing was accepted)"""
    a = accepted(o)
    av = OB.val(a)
    return mk_bool(z3.If(OB.is_none(a),
                         z3.And(OPTINT.dt.is_none(num_t), OPTSTR.dt.is_none(node_t)),
                         z3.And(num_t == OPTINT.dt.some(BD.number(av)), node_t == OPTSTR.dt.some(BD.node_id(av))))
                   ) & mk_bool(val_t == field_term(o, "_accepted_value"))


def _prepare_post(s):
    old, req = s.old(s.self), md(s.old(s.event))
    b = msg_ballot(req)
    es = msgs(s)
    if len(es) == 0:
        return Not(known_sender(s)) & unchanged(s, s.self)
    m = md(es[0])
    refused = below_promise(old, b)
    return known_sender(s) & ite_b(
        refused,
        nack_ok(s, b) & unchanged(s, s.self),
        reply(s, "PaxosPromise") & holds_ballot(promised(s.self), b)
        & mhas(m, "ballot_number", "ballot_node", "from", "accepted_ballot_number", "accepted_ballot_node", "accepted_value")
        & mk_bool(bt_eq(msg_ballot(m), b)) & (mget(m, "from") == s.self.name)
        & reports_accepted(old, M.f_accepted_ballot_number(m), M.f_accepted_ballot_node(m), M.f_accepted_value(m))
        & unchanged(s, s.self, "_accepted_ballot", "_accepted_value"))


BALLOT_KEYS = ("ballot_number", "ballot_node")
fn(PaxosNode, "_handle_prepare", args={"event": Ref(Event)},
   requires=[("well-formed-prepare", lambda s: mhas(md(s.event), *BALLOT_KEYS))],
   ensures=[
    ("A1-promise-iff-not-below-earlier-promise--reporting-the-accepted-ballot-and-value--else-nack", _prepare_post),
    ("learner-and-proposer-state-untouched", lambda s: unchanged(
        s, s.self, "_decided", "_decided_value", "_current_ballot", "_proposed_values", "_phase1_responses", "_phase2_responses"))])


def _accept_post(s):
    old, req = s.old(s.self), md(s.old(s.event))
    b = msg_ballot(req)
    es = msgs(s)
    if len(es) == 0:
        return Not(known_sender(s)) & unchanged(s, s.self)
    m = md(es[0])
    refused = below_promise(old, b)
    return known_sender(s) & ite_b(
        refused,
        nack_ok(s, b) & unchanged(s, s.self),
        reply(s, "PaxosAccepted") & holds_ballot(promised(s.self), b) & holds_ballot(accepted(s.self), b)
        & (s.self._accepted_value == mget(req, "value"))
        & mhas(m, "ballot_number", "ballot_node", "from") & mk_bool(bt_eq(msg_ballot(m), b)) & (mget(m, "from") == s.self.name))


fn(PaxosNode, "_handle_accept", args={"event": Ref(Event)},
   requires=[("well-formed-accept", lambda s: mhas(md(s.event), "value", *BALLOT_KEYS))],
   ensures=[
    ("A1-accepts-iff-not-below-promise--stores-exactly-the-offered-ballot-and-value--else-nack", _accept_post),
    ("learner-and-proposer-state-untouched", lambda s: unchanged(
        s, s.self, "_decided", "_decided_value", "_current_ballot", "_proposed_values", "_phase1_responses", "_phase2_responses"))])


# ---- proposer (A2) ----------------------------------------------------------------------------------
def registered_value(o, b):
    """raw Any term: the value registered for own ballot number b (the client's, or what a retry carried over)"""
    return any_or_none(SENT, field_term(o, "_proposed_values"), b)


def own_ballot(o, b):
    """raw Ballot term (b, own name)"""
    return BD.mk(z3.IntVal(0), zi(b), zs(o.name))


def quorum(o):
    """strict majority of the cluster (peers + this node), no fork"""
    return mk_num((z3.Length(seq_term(o._peers)) + 1) / 2 + 1)


EMPTY_STRS = z3.K(z3.StringSort(), z3.BoolVal(False))


def phase2_effect(s, b, es):
    """what starting phase 2 of own ballot number b must look like; `es` are the events created by it"""
    old, new = s.old(s.self), s.self
    v = map_val(SENT, sent_accept(new), b)
    me = own_ballot(new, b)
    resp = responses(new, b)
    may_self_accept = mk_bool(z3.Or(OB.is_none(promised(old)), z3.Not(bt_lt(me, OB.val(promised(old))))))
    # the first clause is the heart of A2; the others describe a phase 2 that started legitimately (they are
    # stated under that hypothesis so that a violation of the first is reported once, not six times)
    legit = (Not(mk_bool(map_has(SENT, sent_accept(old), b))) & mk_bool(map_has(SENT, field_term(old, "_proposed_values"), b))
             & mk_bool(map_has(SENT, sent_accept(new), b)))
    return [
        ("A2-phase-2-of-a-ballot-starts-only-once--only-while-the-ballot-is-still-registered--and-records-its-offer", legit),
        ("A2-phase-2-needs-a-quorum-of-promises", implies(legit, mk_bool(z3.Length(resp) >= num(quorum(new))))),
        ("A2-every-peer-is-offered-the-one-recorded-value-under-the-own-ballot",
         implies(legit, one_per_peer(s, "PaxosAccept", lambda m: (
             mhas(m, "value", *BALLOT_KEYS) & mk_bool(bt_eq(msg_ballot(m), me)) & mk_bool(M.f_value(m) == v)), es))),
        ("A2-offered-value-is-that-of-the-highest-accepted-ballot-among-the-promises-else-the-registered-one",
         implies(legit, pick_ok(new, resp, mk_num(z3.Length(resp)), new.g_pick, Any.wrap(v), registered_value(old, b)))),
        ("A1-proposer-accepts-its-own-offer-only-if-not-below-its-promise", implies(legit, ite_b(
            may_self_accept,
            holds_ballot(accepted(new), me) & holds_ballot(promised(new), me) & mk_bool(field_term(new, "_accepted_value") == v)
            & mk_bool(accepters(new, b) == z3.Store(EMPTY_STRS, zs(new.name), z3.BoolVal(True))),
            unchanged(s, new, "_accepted_ballot", "_accepted_value", "_promised_ballot") & mk_bool(accepters(new, b) == EMPTY_STRS)))),
        ("A3-no-decision-without-a-quorum-of-acceptances", implies(legit, iff(new._decided, old._decided))),
    ]


PHASE2_CLAUSES = 6


def _start_phase2_clause(i):
    def clause(s):
        es = msgs(s)
        if len(es) == 0:
            return True
        return phase2_effect(s, s.ballot_number, es)[i][1]
    return clause


def _p2_names():
    return ["A2-phase-2-of-a-ballot-starts-only-once--only-while-the-ballot-is-still-registered--and-records-its-offer",
            "A2-phase-2-needs-a-quorum-of-promises",
            "A2-every-peer-is-offered-the-one-recorded-value-under-the-own-ballot",
            "A2-offered-value-is-that-of-the-highest-accepted-ballot-among-the-promises-else-the-registered-one",
            "A1-proposer-accepts-its-own-offer-only-if-not-below-its-promise",
            "A3-no-decision-without-a-quorum-of-acceptances"]


def nothing_offered(s):
    """no Accept was created: acceptor, learner and offer records are untouched"""
    return unchanged(s, s.self, "_accepted_ballot", "_accepted_value", "_promised_ballot", "_accept_sent",
                     "_phase2_acceptors", "_decided", "_decided_value")


BALLOT_GE = (Ballot, "__ge__")      # proved above; used as a contract so that one comparison is one fork


def per_cluster_size(name, **kw):
    """one task per cluster size 3, 4, 5 (the peers are iterated natively; splitting keeps each task's path count
    small and lets the sizes run in parallel)"""
    req = list(kw.pop("requires", []))
    for k in (2, 3, 4):
        fn(PaxosNode, name, label=f"{k + 1}-nodes",
           requires=req + [(f"cluster-of-{k + 1}", lambda s, k=k: slen(s.self._peers) == k)], **kw)


per_cluster_size("_start_phase2", args={"ballot_number": Int}, uses=[FUT_RESOLVE, BALLOT_GE],
   requires=[("called-for-a-ballot-in-phase-1-with-a-quorum-of-promises", lambda s: contains(s.self._phase1_responses, s.ballot_number)
              & mk_bool(z3.Length(responses(s.self, s.ballot_number)) >= num(quorum(s.self))))],
   ensures=[(n, _start_phase2_clause(i)) for i, n in enumerate(_p2_names())] + [
    ("without-an-offer-nothing-changes", lambda s: True if len(msgs(s)) else nothing_offered(s)),
    ("recorded-promises-and-current-ballot-untouched", lambda s: unchanged(s, s.self, "_phase1_responses", "_current_ballot"))])


# ---- proposer: recording promises --------------------------------------------------------------------
def promise_rec(frm_t, ab_t, val_t):
    """raw PROMISE record from raw Opt(Str), Opt((Int,Str)), Any terms"""
    return PROMISE.dt.mk(frm_t, ab_t, val_t)


def appended(new_seq, old_seq, rec):
    return mk_bool(new_seq == z3.Concat(old_seq, z3.Unit(rec)))


def _promise_recorded(s):
    old, req = s.old(s.self), md(s.old(s.event))
    b = mget(req, "ballot_number")
    known = mk_bool(map_has(P1, field_term(old, "_phase1_responses"), b))
    abn, abnode = M.f_accepted_ballot_number(req), M.f_accepted_ballot_node(req)
    ab = z3.If(OPTINT.dt.is_none(abn), OBT.none, OBT.some(BTUP.dt.mk(OPTINT.dt.val(abn), OPTSTR.dt.val(abnode))))
    frm = z3.If(MSG.has(req, "from"), OPTSTR.dt.some(M.f_from(req)), OPTSTR.dt.none)
    return ite_b(known,
                 appended(responses(s.self, b), responses(old, b), promise_rec(frm, ab, M.f_accepted_value(req))),
                 unchanged(s, s.self) & pb(isinstance(s.result, list) and len(s.result) == 0))


# Inside _handle_promise the call of _start_phase2 is replaced by its contract: the precondition (a quorum of
# promises is recorded for that ballot) becomes the call-site obligation `call:PaxosNode._start_phase2/...`;
# what is assumed after the call is only what the three per-size tasks above prove at their exit: the class
# invariants, the two-state guarantees (A1, A2, A3 stability) and the frame.
P2_WRITES = ["_proposed_values", "_accept_sent", "_phase2_acceptors", "_phase2_responses", "_promised_ballot",
             "_accepted_ballot", "_accepted_value", "g_pick", "_decided", "_decided_value", "_proposals_succeeded"]
stub_of(PaxosNode, "_start_phase2", args={"ballot_number": Int}, returns=Seq(Ref(Event)), modifies=P2_WRITES,
        requires=[("called-for-a-ballot-in-phase-1-with-a-quorum-of-promises", lambda s: contains(s.self._phase1_responses, s.ballot_number)
                   & mk_bool(z3.Length(responses(s.self, s.ballot_number)) >= num(quorum(s.self))))],
        ensures=[(lambda s, f=f: f(s.self)) for _n, f in NODE_INV]
        + [(lambda s, f=f: f(s.old(s.self), s.self)) for _n, f in NODE_GUAR])
START_PHASE2 = (PaxosNode, "_start_phase2")


def phase2_calls():
    return [1 for (q, _v, _r) in _ctx.cur().ghost_args.get("trace", []) if q == "PaxosNode._start_phase2"]


fn(PaxosNode, "_handle_promise", args={"event": Ref(Event)}, uses=[START_PHASE2],
   requires=[("well-formed-promise", lambda s: mhas(md(s.event), "ballot_number", "from", "accepted_ballot_number", "accepted_value")
              & mk_bool(z3.Or(OPTINT.dt.is_none(M.f_accepted_ballot_number(md(s.event))),
                              z3.And(MSG.has(md(s.event), "accepted_ballot_node"),
                                     z3.Not(OPTSTR.dt.is_none(M.f_accepted_ballot_node(md(s.event))))))))],
   ensures=[
    ("promise-for-a-known-ballot-is-recorded-exactly-as-reported--others-are-ignored", _promise_recorded),
    ("without-phase-2-acceptor-learner-and-offer-state-are-untouched", lambda s: True if phase2_calls() else nothing_offered(s)),
    ("current-ballot-untouched", lambda s: unchanged(s, s.self, "_current_ballot"))])


# ---- learner: counting acceptances (A3) --------------------------------------------------------------
def _accepted_post(s):
    old, new, req = s.old(s.self), s.self, md(s.old(s.event))
    b, frm = mget(req, "ballot_number"), mget(req, "from")
    offered = mk_bool(map_has(SENT, sent_accept(old), b))
    newly = new._decided & Not(old._decided)
    v = map_val(SENT, sent_accept(old), b)
    es = msgs(s)
    counted = (mk_bool(accepters(new, b) == z3.Store(accepters(old, b), zs(frm), z3.BoolVal(True)))
               & (n_accepters(new, b) == n_accepters(old, b) + ite(mk_bool(z3.Select(accepters(old, b), zs(frm))), 0, 1)))
    ok_decision = (offered & (n_accepters(new, b) >= quorum(new)) & mk_bool(field_term(new, "_decided_value") == v)
                   & one_per_peer(s, "PaxosDecided", lambda m: decided_msg(m, Any.wrap(v)), es))
    for x in resolved_values():
        ok_decision = ok_decision & mk_bool(Any.unwrap(x) == v)
    return [
        ("acceptance-of-a-ballot-this-node-never-offered-is-ignored", implies(Not(offered), unchanged(
            s, new, "_phase2_acceptors", "_decided", "_decided_value") & pb(len(es) == 0))),
        ("each-acceptor-is-counted-once-per-ballot", implies(offered, counted)),
        ("A3-decides-only-on-a-quorum-of-distinct-acceptors-and-only-the-value-offered-for-that-ballot",
         implies(newly, ok_decision)),
        ("no-announcement-without-a-new-decision", implies(Not(newly), pb(len(es) == 0) & pb(len(resolved_values()) == 0))),
    ]


per_cluster_size("_handle_accepted", args={"event": Ref(Event)}, uses=[FUT_RESOLVE],
   requires=[("well-formed-accepted", lambda s: mhas(md(s.event), "ballot_number", "from"))],
   ensures=[(n, (lambda s, i=i: _accepted_post(s)[i][1])) for i, n in enumerate([
       "acceptance-of-a-ballot-this-node-never-offered-is-ignored",
       "each-acceptor-is-counted-once-per-ballot",
       "A3-decides-only-on-a-quorum-of-distinct-acceptors-and-only-the-value-offered-for-that-ballot",
       "no-announcement-without-a-new-decision"])] + [
    ("acceptor-state-and-offers-untouched", lambda s: unchanged(
        s, s.self, "_promised_ballot", "_accepted_ballot", "_accepted_value", "_accept_sent", "_current_ballot", "_proposed_values"))])


# ---- proposer: phase 1 (own promise, prepares, nack, retry) --------------------------------------------
def ballot_term(b):
    """raw Ballot term of a Ballot object"""
    return BALLOT.unwrap(b)


def own_accepted_rec(o, me_name):
    """raw PROMISE record reporting node o's accepted (ballot, value), as _handle_prepare_internal builds it"""
    a = accepted(o)
    av = OB.val(a)
    ab = z3.If(OB.is_none(a), OBT.none, OBT.some(BTUP.dt.mk(BD.number(av), BD.node_id(av))))
    return promise_rec(OPTSTR.dt.some(zs(me_name)), ab, field_term(o, "_accepted_value"))


def self_promise_effect(s, bt, n):
    """the node treats its own Prepare like any acceptor: it promises raw ballot bt (number n) unless it has promised
    a higher one, and records its own promise - reporting its accepted ballot and value - when n is a ballot of its own"""
    old, new = s.old(s.self), s.self
    may = mk_bool(z3.Or(OB.is_none(promised(old)), z3.Not(bt_lt(bt, OB.val(promised(old))))))
    tracked = mk_bool(map_has(P1, field_term(old, "_phase1_responses"), n))
    return ite_b(may,
                 holds_ballot(promised(new), bt)
                 & ite_b(tracked, appended(responses(new, n), responses(old, n), own_accepted_rec(old, new.name)),
                         unchanged(s, new, "_phase1_responses")),
                 unchanged(s, new, "_promised_ballot", "_phase1_responses"))


PROPOSER_MAPS = ("_proposed_values", "_accept_sent", "_phase2_acceptors", "_proposal_futures")
fn(PaxosNode, "_handle_prepare_internal", args={"ballot": BALLOT}, uses=[BALLOT_GE], ensures=[
    ("A1-own-prepare-is-promised-like-any-other-and-the-own-promise-reports-the-accepted-ballot-and-value",
     lambda s: self_promise_effect(s, ballot_term(s.ballot), s.ballot.number)),
    ("accepted-learner-and-offer-state-untouched", lambda s: unchanged(
        s, s.self, "_accepted_ballot", "_accepted_value", "_decided", "_decided_value", "_current_ballot", *PROPOSER_MAPS))])


def prepares_ok(s, es, bt):
    return one_per_peer(s, "PaxosPrepare", lambda m: mhas(m, *BALLOT_KEYS) & mk_bool(bt_eq(msg_ballot(m), bt)), es)


per_cluster_size("start_phase1", uses=[BALLOT_GE], ensures=[
    ("every-peer-is-sent-one-prepare-for-the-current-ballot", lambda s: prepares_ok(
        s, msgs(s), ballot_term(s.old(s.self)._current_ballot))),
    ("own-promise", lambda s: self_promise_effect(s, ballot_term(s.old(s.self)._current_ballot), s.old(s.self)._current_ballot.number)),
    ("accepted-learner-and-offer-state-untouched", lambda s: unchanged(
        s, s.self, "_accepted_ballot", "_accepted_value", "_decided", "_decided_value", "_current_ballot", *PROPOSER_MAPS))])

stub_of("random", "random", returns=Real, ensures=[lambda s: (0 <= s.result) & (s.result < 1)])
RANDOM = ("random", "random")


def _nack_post(s):
    old, new, req = s.old(s.self), s.self, md(s.old(s.event))
    b = mget(req, "ballot_number")
    hi = mk_num(z3.If(MSG.has(req, "highest_ballot_number"), M.f_highest_ballot_number(req), z3.IntVal(0)))
    es = msgs(s)
    live = mk_bool(map_has(SENT, field_term(old, "_proposed_values"), b))
    ok = (new._current_ballot.number == ite(hi > old._current_ballot.number, hi, old._current_ballot.number))
    if len(es) == 0:
        return ok & Not(live)
    e = es[0]
    return (ok & live & pb(len(es) == 1) & (e.event_type == "PaxosRetry") & same(e.target, new)
            & mhas(md(e), "original_ballot") & (mget(md(e), "original_ballot") == b))


fn(PaxosNode, "_handle_nack", args={"event": Ref(Event)}, uses=[RANDOM],
   requires=[("well-formed-nack", lambda s: mhas(md(s.event), "ballot_number")),
             ("retry-delay-nonnegative", lambda s: s.self._retry_delay >= 0)],
   ensures=[
    ("ballot-counter-catches-up-and-one-retry-is-scheduled-for-a-still-registered-ballot", _nack_post),
    ("acceptor-learner-and-offer-state-untouched", lambda s: unchanged(
        s, s.self, "_promised_ballot", "_accepted_ballot", "_accepted_value", "_decided", "_decided_value",
        "_phase1_responses", *PROPOSER_MAPS))])


def _retry_post(s):
    old, new, req = s.old(s.self), s.self, md(s.old(s.event))
    b = mget(req, "original_ballot")
    live = Not(old._decided) & mk_bool(map_has(SENT, field_term(old, "_proposed_values"), b))
    es = msgs(s)
    if len(es) == 0:
        return Not(live) & unchanged(s, new)
    n2 = old._current_ballot.number + 1
    pv_old, pv_new = field_term(old, "_proposed_values"), field_term(new, "_proposed_values")
    bt = own_ballot(new, n2)
    return (live & mk_bool(bt_eq(ballot_term(new._current_ballot), bt))
            # A4: the fresh ballot carries exactly the value registered for the abandoned one
            & mk_bool(z3.And(map_has(SENT, pv_new, n2), map_val(SENT, pv_new, n2) == map_val(SENT, pv_old, b),
                             z3.Not(map_has(SENT, pv_new, b))))
            & Not(mk_bool(map_has(SENT, sent_accept(new), n2)))
            & prepares_ok(s, es, bt))


per_cluster_size("_handle_retry", args={"event": Ref(Event)}, uses=[BALLOT_GE],
   requires=[("well-formed-retry", lambda s: mhas(md(s.event), "original_ballot"))],
   ensures=[
    ("a-live-proposal-moves-to-a-fresh-higher-ballot-with-its-value-and-prepares-it--else-nothing-happens", _retry_post),
    ("accepted-learner-and-offers-untouched", lambda s: unchanged(
        s, s.self, "_accepted_ballot", "_accepted_value", "_decided", "_decided_value", "_accept_sent", "_phase2_acceptors"))])


# ============================================================================ C. quorum intersection
def _quorum_lemmas():
    # pigeonhole over a cluster of n <= 5 nodes: membership of the two quorums as 0/1 indicator variables
    n = fresh(Int, "n")
    assume((3 <= n) & (n <= 5))
    A = [fresh(Bool, f"a{i}") for i in range(5)]
    B = [fresh(Bool, f"b{i}") for i in range(5)]

    def card(X):
        t = 0
        for i, x in enumerate(X):
            t = t + ite(x & (i < n), 1, 0)
        return t
    inter = sym_or(*[A[i] & B[i] & (i < n) for i in range(5)])
    q = mk_num(num(n) / 2 + 1)
    oblige("two-majorities-of-a-cluster-share-a-node", implies((card(A) >= q) & (card(B) >= q), inter))
    # Flexible Paxos: any phase-1 quorum meets any phase-2 quorum as soon as q1 + q2 > n
    q1, q2 = fresh(Int, "q1"), fresh(Int, "q2")
    assume(q1 + q2 > n)
    oblige("flexible-phase-1-and-phase-2-quorums-share-a-node", implies((card(A) >= q1) & (card(B) >= q2), inter))
    # ... and that condition is tight: with q1 + q2 <= n two disjoint quorums exist (so the constructor must refuse)
    oblige("majority-is-an-intersecting-choice", q + q > n)


lemma("quorums-intersect", _quorum_lemmas)

from happysimulator.components.consensus.flexible_paxos import FlexiblePaxosNode  # noqa: E402
from happysimulator.components.consensus.log import Log  # noqa: E402
from happysimulator.components.consensus.raft_state_machine import KVStateMachine  # noqa: E402

cls(KVStateMachine, fields={"_data": Map(Str, Any)})
cls(Log, fields={"_entries": Seq(Any), "commit_index": Int})
FNODE = Ref(FlexiblePaxosNode)
cls(FlexiblePaxosNode, fields={
    "_network": Ref(Network), "_peers": Seq(FNODE), "_state_machine": Ref(KVStateMachine), "_heartbeat_interval": Real,
    "_phase1_quorum": Int, "_phase2_quorum": Int, "_log": Ref(Log), "_last_applied": Int, "_current_ballot": BALLOT,
    "_leader": OPTSTR, "_is_leader": Bool, "_slot_futures": FUTS, "_slot_acks": Map(Int, Int),
    "_pending_commands": Seq(Tuple(Any, Ref(SimFuture))), "_phase1_responses": Map(Int, Seq(Any)),
    "_heartbeat_event": OptRef(Event), "_commands_committed": Int},
    inv=[("phase-1-and-phase-2-quorums-intersect", lambda o: o._phase1_quorum + o._phase2_quorum > slen(o._peers) + 1)])


def _flex_ctor_post(s):
    n = slen(s.self._peers) + 1
    q1 = s.self._phase1_quorum
    q2 = s.self._phase2_quorum
    return ((q1 == (n // 2 + 1 if s.phase1_quorum is None else s.phase1_quorum))
            & (q2 == (n // 2 + 1 if s.phase2_quorum is None else s.phase2_quorum))
            & (q1 + q2 > n) & Not(s.self._is_leader) & (s.self._last_applied == 0))


_ENTITY_INIT = Entity.__init__


def _attached_entity_init(s):
    """Entity.__init__ leaves `_clock = None` until the simulation attaches the entity; specs/common.py types
    `_clock` as always attached (listed assumption), so for constructor contracts the base initialiser is
    reduced to its other statement (`self.name = name`)"""
    def init(self, name):
        self.name = name
    Entity.__init__ = init


def _restore_entity_init(_s):
    Entity.__init__ = _ENTITY_INIT


ctor(FlexiblePaxosNode, args={"name": Str, "network": Ref(Network), "peers": Seq(FNODE), "state_machine": Ref(KVStateMachine),
                              "phase1_quorum": OPTINT, "phase2_quorum": OPTINT},
     setup=_attached_entity_init, teardown=_restore_entity_init,
     ensures=[("configured-or-majority-quorums--intersecting", _flex_ctor_post)],
     raises={ValueError: [("refuses-exactly-the-non-intersecting-quorum-sizes", lambda s: (
         (slen(s.peers) // 2 + 1 if s.phase1_quorum is None else s.phase1_quorum)
         + (slen(s.peers) // 2 + 1 if s.phase2_quorum is None else s.phase2_quorum) <= slen(s.peers) + 1))]})

fn(FlexiblePaxosNode, "phase1_quorum", returns=Int, modifies=[], ensures=[
    ("is-the-configured-size", lambda s: s.result == s.self._phase1_quorum), ("pure", lambda s: unchanged(s, s.self))])
fn(FlexiblePaxosNode, "phase2_quorum", returns=Int, modifies=[], ensures=[
    ("is-the-configured-size", lambda s: s.result == s.self._phase2_quorum), ("pure", lambda s: unchanged(s, s.self))])

# ============================================================================ D. distributed lock: fencing tokens
from happysimulator.components.consensus.distributed_lock import DistributedLock, LockGrant, _LockState  # noqa: E402

GRANT = valueclass("LockGrant", [LockGrant], [("lock_name", Str), ("fencing_token", Int), ("holder", Str),
                                              ("granted_at", Real), ("lease_duration", Real)])
cls(_LockState, fields={"holder": OPTSTR, "fencing_token": Int, "granted_at": Real, "lease_duration": Real,
                        "lease_event": OptRef(Event), "waiters": Seq(Tuple(Str, Ref(SimFuture)))})
LOCKS = Map(Str, Ref(_LockState))


def lock_token(o, name_t):
    """raw Int term: fencing token recorded in the state of the lock named by raw string term name_t"""
    ref = z3.Select(LOCKS.dt.val(field_term(o, "_locks")), name_t)
    return field_term(ObjProxy(ref, _LockState, o._frozen), "fencing_token")


def tokens_below_counter(o):
    return forall(Str, lambda n: implies(mk_bool(z3.Select(LOCKS.dt.dom(field_term(o, "_locks")), n.t)),
                                         mk_bool(lock_token(o, n.t) < num(o._next_token))), "n")


cls(DistributedLock, fields={"_lease_duration": Real, "_max_waiters": Int, "_locks": LOCKS, "_next_token": Int,
                             "_total_acquires": Int, "_total_releases": Int, "_total_expirations": Int,
                             "_total_rejections": Int, "_pending_expiry": OptRef(Event)},
    inv=[("token-counter-positive", lambda o: o._next_token >= 1),
         ("every-recorded-token-is-below-the-counter", tokens_below_counter),
         # (so nobody can overtake the queue: a newcomer finds the lock free only when nobody waits for it)
         ("a-free-lock-has-no-waiters", lambda o: free_locks_have_no_waiters(o)),
         ("configuration-lease-nonnegative", lambda o: o._lease_duration >= 0)],
    guarantee=[("token-counter-never-decreases", lambda old, new: new._next_token >= old._next_token)])

WAITER = Tuple(Str, Ref(SimFuture))
LS_FIELDS = ("holder", "fencing_token", "granted_at", "lease_duration", "lease_event", "waiters")


def q_of(st):
    """raw Seq term: the waiter queue of a lock state (arrival order)"""
    return field_term(st, "waiters")


def fut_resolved(ref_t, frozen=None):
    """raw Bool term: the future with raw reference ref_t is resolved (in the given snapshot)"""
    return field_term(ObjProxy(ref_t, SimFuture, frozen), "_resolved")


def skipped_were_resolved(old_state, k):
    """the first k waiters of the queue at entry had already been answered at entry"""
    q0 = q_of(old_state)
    return forall(Int, lambda i: implies((0 <= i) & (i < k), mk_bool(fut_resolved(WAITER.acc(1)(q0[i.t]), old_state._frozen))), "i")


def only_this_lock_state_changes(frozen_old, st, fields=LS_FIELDS):
    """no _LockState object other than `st` (None: none at all) is written in the listed fields"""
    c = _ctx.cur()

    def body(r):
        ps = []
        for f in fields:
            owner, ty = REG.field(_LockState, f)
            ps.append(z3.Select(c.heap.array((owner, f), ty), r._ref) == z3.Select(c.heap.array((owner, f), ty, frozen_old), r._ref))
        same_vals = mk_bool(z3.And(*ps))
        return same_vals if st is None else (mk_bool(r._ref == st._ref) | same_vals)
    return forall(Ref(_LockState), body, "r")


def array_unchanged(s, klass, field):
    """the field is untouched on EVERY object of the class"""
    c = _ctx.cur()
    owner, ty = REG.field(klass, field)
    return mk_bool(c.heap.array((owner, field), ty) == c.heap.array((owner, field), ty, s.old(s.self)._frozen))


def holder_none(st):
    return mk_bool(OPTSTR.dt.is_none(field_term(st, "holder")))


def holder_is(st, name):
    return mk_bool(field_term(st, "holder") == OPTSTR.dt.some(zs(name)))


def ls_at(o, name_t):
    """the state object recorded for the lock named by raw string term name_t (meaningful when the name is known)"""
    return ObjProxy(z3.Select(LOCKS.dt.val(field_term(o, "_locks")), name_t), _LockState, o._frozen)


def lock_known(o, name):
    return mk_bool(z3.Select(LOCKS.dt.dom(field_term(o, "_locks")), zs(name)))


def in_map(o, name, st):
    """`st` is the state this manager records for lock `name`"""
    return lock_known(o, name) & mk_bool(ls_at(o, zs(name))._ref == st._ref)


def free_locks_have_no_waiters(o):
    return forall(Str, lambda n: implies(mk_bool(z3.Select(LOCKS.dt.dom(field_term(o, "_locks")), n.t)) & holder_none(ls_at(o, n.t)),
                                         mk_bool(z3.Length(q_of(ls_at(o, n.t))) == 0)), "n")


def resolve_calls():
    """(future, value) of every SimFuture.resolve on this path, in order (ghost call trace of the stub)"""
    tr = _ctx.cur().ghost_args.get("trace", [])
    return [(vals["self"], vals["value"]) for (q, vals, _r) in tr if q == "SimFuture.resolve"]


def grant_calls():
    tr = _ctx.cur().ghost_args.get("trace", [])
    return [(vals, r) for (q, vals, r) in tr if q == "DistributedLock._grant_lock"]


def _grant_post(s):
    old = s.old(s.self)
    r = s.result
    return ((r.fencing_token == old._next_token) & (s.self._next_token == old._next_token + 1)
            & (s.state.fencing_token == r.fencing_token) & (r.holder == s.requester) & (r.lock_name == s.lock_name)
            & mk_bool(field_term(s.state, "holder") == OPTSTR.dt.some(zs(s.requester))))


def _grant_lease_post(s):
    """the lease of this grant: one live expiry event addressed to the manager, naming the lock and THIS token (so the
    expiry of an earlier grant can be told apart), not in the past; the expiry event of the previous grant is cancelled"""
    ev = s.state.lease_event
    if ev is None:
        return False
    m = md(ev)
    ok = (same(ev.target, s.self) & (ev.event_type == "LockLeaseExpiry") & Not(ev._cancelled) & (ns(ev.time) >= now_ns(s.self))
          & mhas(m, "lock_name", "fencing_token") & (mget(m, "lock_name") == s.lock_name)
          & (mget(m, "fencing_token") == s.state.fencing_token)
          & mk_bool(field_term(s.self, "_pending_expiry") == field_term(s.state, "lease_event"))
          & (s.state.lease_duration == s.self._lease_duration) & (s.result.lease_duration == s.self._lease_duration)
          & (s.result.granted_at == s.state.granted_at))
    old_ev = s.old(s.state).lease_event
    if old_ev is not None:
        ok = ok & ObjProxy(old_ev._ref, Event)._cancelled
    return ok


def _grant_frame(s):
    old = s.old(s.self)
    c = _ctx.cur()
    owner, ty = REG.field(Event, "_cancelled")
    now_a, old_a = c.heap.array((owner, "_cancelled"), ty), c.heap.array((owner, "_cancelled"), ty, old._frozen)
    prev = field_term(s.old(s.state), "lease_event")
    return (unchanged(s, s.self, "_locks", "_lease_duration", "_max_waiters", "_total_releases", "_total_expirations", "_total_rejections")
            & (s.self._total_acquires == old._total_acquires + 1) & unchanged(s, s.state, "waiters")
            & only_this_lock_state_changes(old._frozen, s.state)
            & array_unchanged(s, SimFuture, "_resolved") & array_unchanged(s, SimFuture, "_value")
            # no event that existed before is cancelled except the lease event of the previous grant
            & forall(Ref(Event), lambda e: mk_bool(z3.Or(e._ref == prev, e._ref > old_alloc(s), z3.Select(now_a, e._ref) == z3.Select(old_a, e._ref))), "e"))


def old_alloc(s):
    """allocation frontier at entry (references above it are objects created by the function); as a stub the contract
    allocates nothing, the frontier is the current one"""
    a = getattr(s, "g_alloc0", None)
    return a if a is not None else _ctx.cur().heap.alloc


GRANT_ARGS = {"state": Ref(_LockState), "lock_name": Str, "requester": Str}
GRANT_REQ = [
    # mutual exclusion: the lock has one holder field, so "at most one holder" is: a grant never overwrites a holder
    ("only-a-free-lock-is-granted", lambda s: holder_none(s.state)),
    ("state-of-a-lock-of-this-manager-or-fresh", lambda s: s.state.fencing_token < s.self._next_token)]
GRANT_ENS = [
    ("grant-carries-a-fresh-token-above-every-earlier-one-and-the-counter-moves-on", _grant_post),
    ("token-strictly-above-the-locks-previous-token", lambda s: s.result.fencing_token > s.old(s.state).fencing_token),
    ("lease-expiry-is-armed-for-exactly-this-grant-and-the-previous-one-is-cancelled", _grant_lease_post),
    ("nothing-else-changes", _grant_frame)]


def _snap_alloc(s):
    c = _ctx.cur()
    s.g_alloc0 = c.heap.alloc
    st = getattr(s, "state", None)
    if st is not None:
        # heap typing: a stored reference denotes an object that exists at entry (not one allocated later)
        c.assume(field_term(st, "lease_event") <= c.heap.alloc)


fn(DistributedLock, "_grant_lock", args=GRANT_ARGS, setup=_snap_alloc, requires=GRANT_REQ, ensures=GRANT_ENS)


def _try_acquire_post(s):
    old = s.old(s.self)
    r = s.result
    if r is None:
        return unchanged(s, s.self, "_next_token")
    fresh_grant = (r.fencing_token == old._next_token) & (s.self._next_token == old._next_token + 1)
    reentrant = (r.fencing_token < old._next_token) & (s.self._next_token == old._next_token)
    return (fresh_grant | reentrant) & (r.holder == s.requester) & (r.lock_name == s.lock_name)


# Every caller below uses _grant_lock through its contract: the precondition `only-a-free-lock-is-granted` becomes a
# call-site obligation wherever a grant is made; what is assumed after the call is what the task above proves.
stub_of(DistributedLock, "_grant_lock", args=GRANT_ARGS, returns=GRANT, requires=GRANT_REQ, ensures=GRANT_ENS,
        modifies=["_next_token", "_total_acquires", "_pending_expiry", ("*", "Event", "_cancelled")]
        + [((lambda s: s.state), f) for f in LS_FIELDS if f != "waiters"])
GRANT_LOCK = (DistributedLock, "_grant_lock")


def state_now(s):
    """the state object recorded for s.lock_name after the call"""
    return ls_at(s.self, zs(s.lock_name))


def one_fresh_grant(s, st, requester_t):
    """exactly one grant was made on this path: to `requester_t` (raw Str), on state `st`, with the token the counter
    showed at entry - strictly above every token handed out before - and the counter moved on by one"""
    old = s.old(s.self)
    return (pb(len(grant_calls()) == 1) & mk_bool(field_term(st, "holder") == OPTSTR.dt.some(requester_t))
            & (st.fencing_token == old._next_token) & (s.self._next_token == old._next_token + 1))


def no_grant(s):
    return pb(len(grant_calls()) == 0) & unchanged(s, s.self, "_next_token", "_total_acquires")


def _try_acquire_full(s):
    old = s.old(s.self)
    known = lock_known(old, s.lock_name)
    st_old = ls_at(old, zs(s.lock_name))
    st = state_now(s)
    free = Not(known) | holder_none(st_old)
    mine = known & holder_is(st_old, s.requester)
    r = s.result
    if r is None:
        return Not(free) & Not(mine) & no_grant(s) & only_this_lock_state_changes(old._frozen, None) & lock_known(s.self, s.lock_name)
    return ite_b(free,
                 one_fresh_grant(s, st, zs(s.requester)) & (r.fencing_token == old._next_token),
                 mine & no_grant(s) & (r.fencing_token == st_old.fencing_token) & only_this_lock_state_changes(old._frozen, None))


fn(DistributedLock, "try_acquire", args={"lock_name": Str, "requester": Str}, uses=[GRANT_LOCK],
   requires=[("lease-nonnegative", lambda s: s.self._lease_duration >= 0)],
   ensures=[
    ("a-grant-carries-either-a-fresh-token-above-all-earlier-ones-or-the-holders-own-current-token", _try_acquire_post),
    ("granted-iff-free-or-already-mine--a-lock-held-by-somebody-else-is-refused-and-nothing-changes", _try_acquire_full)])


# ---- acquire: grant / re-entrant / reject / wait at the tail -------------------------------------------------------
def _acquire_post(s, fut="result"):
    """fut: the returned future (None when the caller drops it: the message path)"""
    old = s.old(s.self)
    known = lock_known(old, s.lock_name)
    st_old = ls_at(old, zs(s.lock_name))
    st = state_now(s)
    calls = resolve_calls()
    if fut == "result":
        fut = s.result
    elif len(calls) == 1:
        fut = calls[0][0]
    else:
        fut = ObjProxy(WAITER.acc(1)(q_of(st)[z3.Length(q_of(st_old))]), SimFuture)
    free = Not(known) | holder_none(st_old)
    mine = known & holder_is(st_old, s.requester)
    full = (old._max_waiters > 0) & mk_bool(z3.Length(q_of(st_old)) >= num(old._max_waiters))
    fresh_future = mk_bool(fut._ref > s.g_alloc0)
    if len(calls) == 0:
        # parked at the TAIL of the queue, still pending; no token is consumed
        return (Not(free) & Not(mine) & Not(full) & no_grant(s) & fresh_future & Not(fut._resolved)
                & mk_bool(q_of(st) == z3.Concat(q_of(st_old), z3.Unit(WAITER.dt.mk(zs(s.requester), fut._ref))))
                & only_this_lock_state_changes(old._frozen, st, LS_FIELDS) & unchanged(s, st, *[f for f in LS_FIELDS if f != "waiters"])
                & unchanged(s, s.self, "_total_rejections"))
    if len(calls) != 1:
        return False
    f, v = calls[0]
    ok = same(f, fut) & fresh_future & fut._resolved
    if v is None:
        return (ok & Not(free) & Not(mine) & full & no_grant(s) & (s.self._total_rejections == old._total_rejections + 1)
                & only_this_lock_state_changes(old._frozen, None))
    ok = ok & (v.holder == s.requester) & (v.lock_name == s.lock_name) & unchanged(s, s.self, "_total_rejections")
    return ok & ite_b(free,
                      one_fresh_grant(s, st, zs(s.requester)) & (v.fencing_token == old._next_token),
                      mine & no_grant(s) & (v.fencing_token == st_old.fencing_token) & only_this_lock_state_changes(old._frozen, None))


fn(DistributedLock, "acquire", args={"lock_name": Str, "requester": Str}, uses=[GRANT_LOCK, FUT_RESOLVE], setup=_snap_alloc,
   ensures=[
    ("free-lock-is-granted-with-a-fresh-token--holder-gets-its-own-grant-again--full-queue-refuses--else-joins-the-tail", _acquire_post)])


# ---- handing the lock on: waiters in arrival order -------------------------------------------------------------------
def handed_on(s, st, st_old):
    """after the lock was freed: the first waiter (in arrival order) whose future was still pending is the new holder, with a
    fresh token, and its future - only that one - resolves with a grant carrying exactly that token; everybody before it
    had been answered already; the waiters behind it keep their order.  Without a pending waiter the lock is free and
    the queue is empty."""
    old = s.old(s.self)
    q0, q1 = q_of(st_old), q_of(st)
    n0, n1 = z3.Length(q0), z3.Length(q1)
    granted = Not(holder_none(st))
    k = z3.If(to_z3_bool(granted), n0 - n1 - 1, n0 - n1)
    w = q0[k]
    calls = resolve_calls()
    ok = mk_bool(z3.SuffixOf(q1, q0)) & skipped_were_resolved(st_old, mk_num(k)) & mk_bool(k >= 0)
    if len(calls) == 0:
        return ok & Not(granted) & mk_bool(n1 == 0) & no_grant(s) & unchanged(s, st, "fencing_token")
    if len(calls) != 1:
        return False
    f, v = calls[0]
    if v is None:
        return False
    return (ok & granted & mk_bool(k < n0) & mk_bool(z3.Not(fut_resolved(WAITER.acc(1)(w), st_old._frozen)))
            & one_fresh_grant(s, st, WAITER.acc(0)(w)) & mk_bool(f._ref == WAITER.acc(1)(w))
            & (v.fencing_token == st.fencing_token) & mk_bool(zs(v.holder) == WAITER.acc(0)(w)) & (v.lock_name == s.lock_name))


WAKE_ARGS = {"state": Ref(_LockState), "lock_name": Str}
MANAGER_INV_NAMES = ("token-counter-positive", "every-recorded-token-is-below-the-counter", "configuration-lease-nonnegative")


def manager_inv_but_queue(o):
    """the class invariants of the manager except `a-free-lock-has-no-waiters` (which does not hold in the middle of a
    release: the lock was just freed, its waiters are about to be served)"""
    ci = REG.classes[DistributedLock]
    ok = True
    for name, f in ci.inv:
        if name in MANAGER_INV_NAMES:
            ok = ok & f(o)
    return ok


def free_elsewhere_no_waiters(o, st):
    """a-free-lock-has-no-waiters for every lock except the one in hand"""
    return forall(Str, lambda n: implies(mk_bool(z3.Select(LOCKS.dt.dom(field_term(o, "_locks")), n.t)) & holder_none(ls_at(o, n.t))
                                         & mk_bool(ls_at(o, n.t)._ref != st._ref),
                                         mk_bool(z3.Length(q_of(ls_at(o, n.t))) == 0)), "n")


fn(DistributedLock, "_wake_next_waiter", args=WAKE_ARGS, uses=[GRANT_LOCK, FUT_RESOLVE], inv=False,
   requires=[("the-lock-was-just-freed", lambda s: holder_none(s.state)),
             ("state-of-this-lock", lambda s: in_map(s.self, s.lock_name, s.state)),
             ("manager-invariants-except-the-queue-one", lambda s: manager_inv_but_queue(s.self) & free_elsewhere_no_waiters(s.self, s.state))],
   ensures=[
    ("first-pending-waiter-in-arrival-order-becomes-holder-with-a-fresh-token-and-is-told-so--else-the-lock-stays-free", lambda s: handed_on(
        s, s.state, s.old(s.state))),
    ("manager-invariants-restored-including-the-queue-one", lambda s: manager_inv_but_queue(s.self) & free_locks_have_no_waiters(s.self)),
    ("other-locks-untouched", lambda s: only_this_lock_state_changes(s.old(s.self)._frozen, s.state) & unchanged(s, s.self, "_locks"))])


def _freed_post(s, st, st_old):
    """the previous holder's lease event is cancelled / dropped and the lock is handed on"""
    return handed_on(s, st, st_old) & only_this_lock_state_changes(s.old(s.self)._frozen, st) & unchanged(s, s.self, "_locks")


def _release_lock_post(s):
    old_ev = s.old(s.state).lease_event
    ok = (s.self._total_releases == s.old(s.self)._total_releases + 1) & unchanged(s, s.self, "_total_expirations")
    if old_ev is not None:
        ok = ok & ObjProxy(old_ev._ref, Event)._cancelled          # the released holder's lease can no longer fire
    return ok & _freed_post(s, s.state, s.old(s.state))


fn(DistributedLock, "_release_lock", args=WAKE_ARGS, uses=[GRANT_LOCK, FUT_RESOLVE],
   requires=[("the-lock-is-held", lambda s: Not(holder_none(s.state))),
             ("state-of-this-lock", lambda s: in_map(s.self, s.lock_name, s.state))],
   ensures=[("holder-gives-up-the-lock--its-lease-is-cancelled--and-the-lock-is-handed-on-in-arrival-order", _release_lock_post)])


def nothing_changes(s):
    """manager, every lock state, every future and every event flag are untouched"""
    return (unchanged(s, s.self) & only_this_lock_state_changes(s.old(s.self)._frozen, None) & pb(len(resolve_calls()) == 0) & no_grant(s)
            & array_unchanged(s, Event, "_cancelled"))


def held_with_token(o, name, token):
    """lock `name` exists, is held, and its current fencing token is `token`"""
    st = ls_at(o, zs(name))
    return lock_known(o, name) & Not(holder_none(st)) & (st.fencing_token == token)


def _release_post(s):
    old = s.old(s.self)
    st_old = ls_at(old, zs(s.lock_name))
    effective = held_with_token(old, s.lock_name, s.fencing_token)
    if s.result is True or s.result is False:
        res = s.result
    else:
        return False
    if not res:
        return Not(effective) & nothing_changes(s)
    st = state_now(s)
    return (effective & mk_bool(st._ref == st_old._ref) & (s.self._total_releases == old._total_releases + 1)
            & _freed_post(s, st, st_old))


fn(DistributedLock, "release", args={"lock_name": Str, "fencing_token": Int}, uses=[GRANT_LOCK, FUT_RESOLVE], returns=Bool,
   ensures=[("only-the-holders-current-token-releases--a-stale-or-foreign-token-or-a-free-lock-changes-nothing", _release_post)])


# ---- lease expiry --------------------------------------------------------------------------------------------------
def _expiry_effect(s, ev_md_old):
    """an expiry event frees the lock iff it names a known lock that is held under exactly the token the event was armed
    for; then the lock is handed on.  Afterwards the lock is free or held under a HIGHER token, so the same expiry
    (a duplicate, or one that races a release) can never free it a second time."""
    old = s.old(s.self)
    m = ev_md_old
    named = mhas(m, "lock_name")
    name = mget(m, "lock_name")
    st_old = ls_at(old, zs(name))
    fires = named & mhas(m, "fencing_token") & held_with_token(old, name, mget(m, "fencing_token"))
    st = ls_at(s.self, zs(name))
    ns2 = s_with_lock_name(s, name)
    return ite_b(fires,
                 (s.self._total_expirations == old._total_expirations + 1) & unchanged(s, s.self, "_total_releases")
                 & mk_bool(st._ref == st_old._ref) & _freed_post(ns2, st, st_old)
                 & Not(held_with_token(s.self, name, mget(m, "fencing_token"))),
                 nothing_changes(s))


class _NSView:
    """clause namespace with an extra / overridden attribute"""

    def __init__(self, s, **kw):
        object.__setattr__(self, "_s", s)
        object.__setattr__(self, "_kw", kw)

    def __getattr__(self, k):
        kw = object.__getattribute__(self, "_kw")
        return kw[k] if k in kw else getattr(object.__getattribute__(self, "_s"), k)


def s_with_lock_name(s, name):
    return _NSView(s, lock_name=name)


fn(DistributedLock, "_handle_lease_expiry", args={"event": Ref(Event)}, uses=[GRANT_LOCK, FUT_RESOLVE],
   ensures=[("expired-lease-frees-the-lock-exactly-once--stale-or-foreign-expiries-change-nothing", lambda s: _expiry_effect(
       s, md(s.old(s.event))))])


# ---- message interface: each event type has exactly the effect of the operation it names ------------------------------
def _release_effect(s, name, token):
    """effect of release(name, token) (see _release_post), without the boolean"""
    old = s.old(s.self)
    st_old, st = ls_at(old, zs(name)), ls_at(s.self, zs(name))
    return ite_b(held_with_token(old, name, token),
                 mk_bool(st._ref == st_old._ref) & (s.self._total_releases == old._total_releases + 1)
                 & _freed_post(s_with_lock_name(s, name), st, st_old),
                 nothing_changes(s))


def _dispatch_post(s):
    ev = s.old(s.event)
    m = md(ev)
    t = ev.event_type
    is_exp, is_acq, is_rel = t == "LockLeaseExpiry", t == "LockAcquireRequest", t == "LockReleaseRequest"
    ok = pb(s.result is None)
    ok = ok & implies(is_exp, _expiry_effect(s, m))
    rel_ok = mhas(m, "lock_name", "fencing_token")
    ok = ok & implies(is_rel & rel_ok, _release_effect(s, mget(m, "lock_name"), mget(m, "fencing_token")))
    acq_ok = mhas(m, "lock_name", "requester")
    ok = ok & implies(is_acq & acq_ok, _acquire_post(_NSView(s, lock_name=mget(m, "lock_name"), requester=mget(m, "requester")), fut=None))
    ok = ok & implies((is_rel & Not(rel_ok)) | (is_acq & Not(acq_ok)) | (Not(is_exp) & Not(is_acq) & Not(is_rel)), nothing_changes(s))
    return ok


fn(DistributedLock, "handle_event", args={"event": Ref(Event)}, uses=[GRANT_LOCK, FUT_RESOLVE], setup=_snap_alloc,
   ensures=[("expiry-acquire-and-release-messages-have-exactly-the-effect-of-the-operation-they-name--anything-else-is-ignored",
             _dispatch_post)])


# ============================================================================ E. leader election: one leader per term
# The statement's clause is per node: the pair (current_term, current_leader) a node reports is a function of the
# term - a leader, once reported for a term, is never replaced under the same term number - and term numbers only
# grow.  The component has no voting (Bully / Ring / Randomized announce a winner, nobody counts votes), so
# "elected by a quorum" has no counterpart in the code; the election strategy is used through its interface only:
# the clauses hold for EVERY strategy (its answers are arbitrary).
import os  # noqa: E402

from happysimulator.components.consensus.election_strategies import ElectionStrategy  # noqa: E402
from happysimulator.components.consensus.leader_election import LeaderElection  # noqa: E402

LE_REPAIRED = "self._current_leader in (None, leader)" in open(os.path.join(_ctx.REPO, F_LE)).read()
MSGOUT = FixedRec("electionmsg", {"target": Str, "event_type": Str, "payload": Any})
LE_LOOP.elem = MSGOUT
ERESULT = Record("electionresult", {"response_messages": Seq(MSGOUT), "leader": OPTSTR, "suppress_election": Bool,
                                    "start_own_election": Bool})
cls(ElectionStrategy, fields={})
cls(LeaderElection, fields={
    "_network": Ref(Network), "_members": Map(Str, Ref(Entity)), "_strategy": Ref(ElectionStrategy),
    "_election_timeout": Real, "_heartbeat_interval": Real, "_current_leader": OPTSTR, "_current_term": Int,
    "_election_in_progress": Bool, "_last_leader_heartbeat": Real, "_timeout_event": OptRef(Event),
    "_elections_started": Int, "_elections_won": Int, "_elections_participated": Int},
    const=["_network", "_strategy", "_election_timeout", "_heartbeat_interval"])


def le_leader(o):
    return field_term(o, "_current_leader")


def term_never_decreases(old, new):
    return new._current_term >= old._current_term


def one_leader_per_term(old, new):
    """a leader reported for a term is never replaced (nor forgotten) under the same term number"""
    return implies((new._current_term == old._current_term) & mk_bool(z3.Not(OPTSTR.dt.is_none(le_leader(old)))),
                   mk_bool(le_leader(new) == le_leader(old)))


LE_GUAR = [("term-numbers-only-grow", term_never_decreases)]
if LE_REPAIRED:
    # fails in _handle_leader_heartbeat on the unrepaired tree (fixes/C12_heartbeat-equal-term-keeps-leader.diff; native
    # reproduction triage/c12_leader_election.py); every other function carries the clause as a postcondition below
    LE_GUAR.append(("never-two-different-leaders-for-one-term", one_leader_per_term))
cls(LeaderElection, guarantee=LE_GUAR)
G2 = ("never-two-different-leaders-for-one-term", lambda s: one_leader_per_term(s.old(s.self), s.self))

stub_of(ElectionStrategy, "handle_election_message", returns=ERESULT, modifies=[], ensures=[
    lambda s: mk_bool(ERESULT.has(s.result.term, "response_messages"))])
stub_of(ElectionStrategy, "get_election_messages", returns=Seq(MSGOUT), modifies=[], ensures=[
    # bounded: the strategy asks at most 3 members per election (the code iterates the list twice)
    lambda s: slen(s.result) <= 3])
stub_of(Network, "send", returns=Ref(Event), modifies=[], ensures=[
    lambda s: (s.result.event_type == s.event_type) & same(s.result.target, s.self)
    & mhas(md(s.result), "source", "destination") & (mget(md(s.result), "source") == s.source.name)
    & (mget(md(s.result), "destination") == s.destination.name) & carries_payload(md(s.result), s.payload)])
STRAT_HANDLE, STRAT_MSGS, NET_SEND = (ElectionStrategy, "handle_election_message"), (ElectionStrategy, "get_election_messages"), (Network, "send")


def carries_payload(m, payload):
    """a heartbeat's literal payload {'leader': .., 'term': ..} is copied into the message; other payloads are opaque"""
    if isinstance(payload, dict) and set(payload) == {"leader", "term"}:
        return mhas(m, "leader", "term") & (mget(m, "leader") == payload["leader"]) & (mget(m, "term") == payload["term"])
    return True


def _heartbeat_post(s):
    old, new, m = s.old(s.self), s.self, md(s.old(s.event))
    term, leader = mget(m, "term"), mget(m, "leader")
    adopted = (new._current_term == term) & mk_bool(le_leader(new) == OPTSTR.dt.some(zs(leader))) & Not(new._election_in_progress)
    untouched = unchanged(s, new, "_current_term", "_current_leader", "_election_in_progress", "_last_leader_heartbeat")
    return (implies(term < old._current_term, untouched)          # a leader is adopted only for a term >= the current one
            & implies(term > old._current_term, adopted)
            & (adopted | untouched))


fn(LeaderElection, "_handle_leader_heartbeat", args={"event": Ref(Event)},
   requires=[("well-formed-heartbeat", lambda s: mhas(md(s.event), "leader", "term"))],
   ensures=[
    ("leader-of-a-newer-term-is-adopted-with-its-term--a-stale-heartbeat-changes-nothing", _heartbeat_post),
    ("election-counters-untouched", lambda s: unchanged(s, s.self, "_members", "_elections_started", "_elections_won"))])


def _start_election_post(s):
    old, new = s.old(s.self), s.self
    won = mk_bool(le_leader(new) == OPTSTR.dt.some(zs(new.name)))
    return ((new._current_term == old._current_term + 1) & (new._elections_started == old._elections_started + 1)
            & (won | mk_bool(le_leader(new) == le_leader(old)))
            & implies(mk_bool(le_leader(new) != le_leader(old)), Not(new._election_in_progress))
            & unchanged(s, new, "_members", "_last_leader_heartbeat"))


START_ELECTION_ENS = [
    ("opens-a-fresh-term--the-only-leader-it-may-install-is-the-node-itself", _start_election_post), G2]
fn(LeaderElection, "_start_election", uses=[STRAT_MSGS, NET_SEND], ensures=START_ELECTION_ENS)


def named_leader():
    """raw Opt(Str): the leader named by the strategy's answer on this path (None when it names none)"""
    tr = [r for (q, _v, r) in _ctx.cur().ghost_args.get("trace", []) if q == "ElectionStrategy.handle_election_message"]
    if len(tr) != 1:
        raise SpecError("exactly one strategy call expected")
    t = tr[0].term
    return z3.If(ERESULT.has(t, "leader"), ERESULT.acc("leader")(t), OPTSTR.dt.none)


def own_elections():
    return len([1 for (q, _v, _r) in _ctx.cur().ghost_args.get("trace", []) if q == "LeaderElection._start_election"])


def _election_message_post(s):
    old, new = s.old(s.self), s.self
    nl = named_leader()
    named = mk_bool(z3.Not(OPTSTR.dt.is_none(nl)))
    k = own_elections()
    if k > 1:
        return False
    if k == 0:
        # an announced leader is recorded under a FRESH term number; without an announcement term and leader stay
        return (ite_b(named, (new._current_term == old._current_term + 1) & mk_bool(le_leader(new) == nl) & Not(new._election_in_progress),
                      unchanged(s, new, "_current_term", "_current_leader"))
                & (new._elections_participated == old._elections_participated + 1))
    return (new._current_term == old._current_term + ite(named, 2, 1)) & (new._elections_participated == old._elections_participated + 1)


# inside _handle_election_message the call of _start_election is replaced by the contract proved above
stub_of(LeaderElection, "_start_election", returns=Seq(Ref(Event)), ensures=START_ELECTION_ENS,
        modifies=["_election_in_progress", "_elections_started", "_current_term", "_current_leader", "_elections_won"])
fn(LeaderElection, "_handle_election_message", args={"event": Ref(Event)},
   uses=[STRAT_HANDLE, NET_SEND, (LeaderElection, "_start_election")], ensures=[
    ("an-announced-leader-is-recorded-under-a-fresh-term--otherwise-term-and-leader-change-only-by-an-own-election",
     _election_message_post), G2])


# ---- periodic check: heartbeats name the sender and its current term; term/leader move only through an own election --
def hb_ok(o, e):
    m = md(e)
    return (e.event_type == "LeaderHeartbeat") & mhas(m, "leader", "term") & (mget(m, "leader") == o.name) & (mget(m, "term") == o._current_term)


def empty_events():
    ty = Seq(Ref(Event))
    return ty.wrap(ty.unwrap([]))


def heartbeats_ok(o, events, upto=None):
    if isinstance(events, list):
        ok = True
        for e in events:
            ok = ok & hb_ok(o, e)
        return ok
    t = seq_term(events)
    n = mk_num(z3.Length(t)) if upto is None else upto
    alloc = _ctx.cur().heap.alloc
    # (typing: the list holds events that exist - `<= alloc` - so an event created later is none of them)
    return forall(Int, lambda i: implies((0 <= i) & (i < n), hb_ok(o, ObjProxy(t[i.t], Event)) & mk_bool(t[i.t] <= alloc)), "i")


def _timeout_check_post(s):
    old, new = s.old(s.self), s.self
    was_leader = mk_bool(le_leader(old) == OPTSTR.dt.some(zs(old.name)))
    k = own_elections()
    if k > 1:
        return False
    ok = implies(was_leader, pb(k == 0) & heartbeats_ok(new, s.result, slen(s.result) - 1))
    if k == 0:
        ok = ok & unchanged(s, new, "_current_term", "_current_leader", "_election_in_progress")
    else:
        ok = ok & Not(old._election_in_progress)
    return ok & (slen(s.result) >= 1)


fn(LeaderElection, "_handle_timeout_check", args={"event": Ref(Event)}, uses=[NET_SEND, (LeaderElection, "_start_election")],
   ensures=[("only-the-leader-sends-heartbeats--they-name-it-and-its-current-term--term-and-leader-move-only-by-an-own-election",
             _timeout_check_post), G2])


# ============================================================================ F. slot-based nodes (Flexible Paxos, Multi-Paxos)
# What holds on the current tree and is kept under contract: the promise register (`_current_ballot`) never decreases,
# Prepare/Accept below the promise are refused without effect, leadership needs a PHASE-1 quorum of promises, a slot is
# committed only on a PHASE-2 quorum of acknowledgements, the commit index never moves backwards in the learner paths.
# What does NOT hold (genuine defects, native reproduction triage/c12_multi_paxos.py, no small repair): an accepted
# command is stored at last_index+1 whatever slot the leader named, a different-ballot Accept truncates the log
# INCLUDING committed slots, a new leader ignores the logs carried by its promises.  The clauses that state these are
# evaluated only with C12_STRICT_SLOTS=1 in the environment (they fail on the unrepaired tree).
from happysimulator.components.consensus.log import LogEntry  # noqa: E402
from happysimulator.components.consensus.multi_paxos import MultiPaxosNode  # noqa: E402

# The clauses are ACTIVE: on the pinned tree they fail and are listed as OPEN known findings (KNOWN_FINDINGS.json,
# keyed by exactly these (task, obligation) pairs), so the check prints KNOWN-FINDING for them and any other failure of
# the slot handlers is still a VIOLATION.  (C12_STRICT_SLOTS=0 switches them off for experiments.)
STRICT_SLOTS = os.environ.get("C12_STRICT_SLOTS", "1") == "1"
LOGENTRY = valueclass("LogEntry", [LogEntry], [("index", Int), ("term", Int), ("command", Any)])
cls(Log, fields={"_entries": Seq(LOGENTRY)},
    inv=[("commit-index-within-the-log", lambda o: (0 <= o.commit_index) & (o.commit_index <= slen(o._entries)))])
MNODE = Ref(MultiPaxosNode)
cls(MultiPaxosNode, fields={
    "_network": Ref(Network), "_peers": Seq(MNODE), "_state_machine": Ref(KVStateMachine), "_leader_lease_timeout": Real,
    "_heartbeat_interval": Real, "_log": Ref(Log), "_last_applied": Int, "_current_ballot": BALLOT, "_leader": OPTSTR,
    "_is_leader": Bool, "_leader_established": Bool, "_last_leader_heartbeat": Real, "_slot_futures": FUTS,
    "_slot_commands": Map(Int, Any), "_slot_acks": Map(Int, Int), "_pending_commands": Seq(Tuple(Any, Ref(SimFuture))),
    "_phase1_responses": Map(Int, Seq(Any)), "_heartbeat_event": OptRef(Event), "_commands_committed": Int, "_leader_changes": Int})


def cur_ballot(o):
    return ballot_term(o._current_ballot)


def bt_le(a, b):
    return z3.Not(bt_lt(b, a))


def promise_never_decreases(old, new):
    return mk_bool(bt_le(cur_ballot(old), cur_ballot(new)))


def log_entries(o, frozen="same"):
    lg = o._log
    return field_term(lg if frozen == "same" else ObjProxy(lg._ref, Log, frozen), "_entries")


def commit_of(o):
    return field_term(ObjProxy(field_term(o, "_log"), Log, o._frozen), "commit_index")


def entries_of(o):
    return field_term(ObjProxy(field_term(o, "_log"), Log, o._frozen), "_entries")


def log_untouched(s):
    return mk_bool(z3.And(entries_of(s.self) == entries_of(s.old(s.self)), commit_of(s.self) == commit_of(s.old(s.self))))


def commit_never_backwards(s):
    return mk_bool(commit_of(s.self) >= commit_of(s.old(s.self)))


def committed_prefix_stable(s):
    """a slot decision is stable: the commit index does not move back and the committed entries stay what they were"""
    old = s.old(s.self)
    c0 = commit_of(old)
    return mk_bool(z3.And(commit_of(s.self) >= c0, z3.Extract(entries_of(s.self), 0, c0) == z3.Extract(entries_of(old), 0, c0)))


def calls_of(qual):
    return len([1 for (q, _v, _r) in _ctx.cur().ghost_args.get("trace", []) if q == qual])


def slot_node(K, relpath, tag, q1, q2, n_events_stub):
    """contracts shared by FlexiblePaxosNode and MultiPaxosNode (same handler structure); q1 / q2: the phase-1 / phase-2
    quorum of a node as a symbolic integer"""
    kn = K.__name__
    cls(K, guarantee=[("A1-promise-never-decreases", promise_never_decreases)])
    # configuration (the handlers that look the sender up iterate the peer list natively): clusters of 3..5 nodes
    CLUSTER = ("cluster-of-3-to-5", lambda s: (2 <= slen(s.self._peers)) & (slen(s.self._peers) <= 4))
    LOGFOCUS = dict(focus=lambda s: [s.self._log])
    BCMP = [(Ballot, "__gt__"), (Ballot, "__lt__"), (Ballot, "__ge__")]
    stub_of(K, "_become_leader", returns=Seq(Ref(Event)), ensures=[
        lambda s: promise_never_decreases(s.old(s.self), s.self),
        lambda s: mk_bool(z3.PrefixOf(entries_of(s.old(s.self)), entries_of(s.self)))],      # (it only appends: pending commands get slots)
            modifies=["_is_leader", "_leader", "_pending_commands", "_slot_futures", "_slot_acks", "_heartbeat_event"]
            + [f for f in ("_leader_established", "_leader_changes", "_last_leader_heartbeat", "_slot_commands") if REG.field(K, f) is not None]
            + [((lambda s: s.self._log), "_entries")])
    stub_of(K, "_apply_committed", modifies=["_last_applied", "_commands_committed", "_slot_futures"], ensures=[])
    CONTRACTS_K = {"lead": (K, "_become_leader"), "apply": (K, "_apply_committed")}

    def msg_b(s):
        return msg_ballot(md(s.old(s.event)))

    def adopted(s):
        return mk_bool(bt_eq(cur_ballot(s.self), msg_b(s)))

    # ---- acceptor: Prepare ----
    def prepare_post(s):
        old = s.old(s.self)
        es = msgs(s)
        refused = mk_bool(bt_lt(msg_b(s), cur_ballot(old)))
        if len(es) == 0:
            return Not(known_sender(s)) & unchanged(s, s.self) & log_untouched(s)
        if len(es) != 1:
            return False
        return known_sender(s) & log_untouched(s) & ite_b(
            refused, (es[0].event_type == tag + "Nack") & unchanged(s, s.self),
            (es[0].event_type == tag + "Promise") & adopted(s) & Not(s.self._is_leader))
    fn(K, "_handle_prepare", args={"event": Ref(Event)}, uses=BCMP + [NET_SEND], **LOGFOCUS,
       requires=[CLUSTER, ("well-formed-prepare", lambda s: mhas(md(s.event), *BALLOT_KEYS))],
       ensures=[("A1-prepare-below-the-promise-is-refused-without-effect--otherwise-the-promise-moves-to-it", prepare_post)])

    # ---- acceptor: Accept ----
    def accept_post(s):
        old = s.old(s.self)
        es = msgs(s)
        refused = mk_bool(bt_lt(msg_b(s), cur_ballot(old)))
        if len(es) == 0:
            return Not(known_sender(s)) & unchanged(s, s.self) & log_untouched(s)
        if len(es) != 1:
            return False
        return known_sender(s) & ite_b(
            refused, (es[0].event_type == tag + "Nack") & unchanged(s, s.self) & log_untouched(s),
            (es[0].event_type == tag + "Accepted") & adopted(s)
            & mk_bool(field_term(s.self, "_leader") == OPTSTR.dt.some(M.f_ballot_node(md(s.old(s.event))))))

    def accept_slot_post(s):
        """STRICT: after accepting, the named slot holds exactly the offered (ballot number, command)"""
        old, req = s.old(s.self), md(s.old(s.event))
        es = msgs(s)
        if len(es) != 1:
            return True
        slot = M.f_slot(req)
        e = entries_of(s.self)[slot - 1]
        accepted_it = mk_bool(z3.Not(bt_lt(msg_b(s), cur_ballot(old))))
        return implies(accepted_it & mk_bool(slot >= 1), mk_bool(z3.And(
            z3.Length(entries_of(s.self)) >= slot, LOGENTRY.dt.term(e) == M.f_ballot_number(req), LOGENTRY.dt.command(e) == M.f_command(req))))
    acc_ens = [("A1-accept-below-the-promise-is-refused-without-effect--otherwise-promise-and-leader-follow-the-ballot", accept_post)]
    if STRICT_SLOTS:
        acc_ens += [("STRICT-accepted-command-is-stored-in-the-slot-the-leader-named", accept_slot_post),
                    ("STRICT-committed-slots-are-stable", committed_prefix_stable)]
    fn(K, "_handle_accept", args={"event": Ref(Event)}, uses=BCMP + [NET_SEND, CONTRACTS_K["apply"]], **LOGFOCUS,
       requires=[CLUSTER, ("well-formed-accept", lambda s: mhas(md(s.event), "slot", "command", *BALLOT_KEYS))], ensures=acc_ens)

    # ---- proposer: promises -> leadership needs the PHASE-1 quorum ----
    def promise_post(s):
        old, new, req = s.old(s.self), s.self, md(s.old(s.event))
        b = mget(req, "ballot_number")
        known = mk_bool(map_has(P1F, field_term(old, "_phase1_responses"), b))
        n_new = mk_num(z3.Length(map_val(P1F, field_term(new, "_phase1_responses"), b)))
        n_old = mk_num(z3.Length(map_val(P1F, field_term(old, "_phase1_responses"), b)))
        led = calls_of(kn + "._become_leader")
        if led > 1:
            return False
        ok = ite_b(known, n_new == n_old + 1, unchanged(s, new) & pb(led == 0))
        if led == 1:
            return ok & (n_new >= q1(new))
        return ok & implies(known, n_new < q1(new)) & unchanged(s, new, "_is_leader", "_leader", "_current_ballot") & log_untouched(s)
    fn(K, "_handle_promise", args={"event": Ref(Event)}, uses=[CONTRACTS_K["lead"]], **LOGFOCUS,
       requires=[("well-formed-promise", lambda s: mhas(md(s.event), "ballot_number"))],
       ensures=[("leadership-is-taken-exactly-when-the-promises-of-that-ballot-reach-the-phase-1-quorum", promise_post)])

    # ---- learner: acknowledgements -> commit needs the PHASE-2 quorum ----
    def accepted_post(s):
        old, new, req = s.old(s.self), s.self, md(s.old(s.event))
        slot = mget(req, "slot")
        acks_old = mk_num(z3.If(map_has(ACKS, field_term(old, "_slot_acks"), slot), map_val(ACKS, field_term(old, "_slot_acks"), slot), 0))
        acks_new = mk_num(map_val(ACKS, field_term(new, "_slot_acks"), slot))
        moved = mk_bool(commit_of(new) != commit_of(old))
        return ((acks_new == acks_old + 1) & commit_never_backwards(s) & mk_bool(entries_of(new) == entries_of(old))
                & implies(moved, (acks_new >= q2(new)) & mk_bool(commit_of(new) <= num(slot)))
                & unchanged(s, new, "_current_ballot", "_is_leader", "_leader"))
    fn(K, "_handle_accepted", args={"event": Ref(Event)}, uses=[CONTRACTS_K["apply"]], **LOGFOCUS,
       requires=[("well-formed-accepted", lambda s: mhas(md(s.event), "slot"))],
       ensures=[("a-slot-is-committed-only-on-a-phase-2-quorum-of-acknowledgements--never-beyond-it--never-backwards", accepted_post)])

    # ---- nack ----
    def nack_post(s):
        old, new, req = s.old(s.self), s.self, md(s.old(s.event))
        hb = BD.mk(z3.IntVal(0), z3.If(MSG.has(req, "ballot_number"), M.f_ballot_number(req), z3.IntVal(0)),
                   z3.If(MSG.has(req, "ballot_node"), M.f_ballot_node(req), z3.StringVal("")))
        higher = mk_bool(bt_lt(cur_ballot(old), hb))
        return ite_b(higher, mk_bool(bt_eq(cur_ballot(new), hb)) & Not(new._is_leader), unchanged(s, new)) & log_untouched(s)
    fn(K, "_handle_nack", args={"event": Ref(Event)}, uses=BCMP, **LOGFOCUS,
       ensures=[("a-higher-ballot-is-adopted-and-ends-the-own-leadership--anything-else-is-ignored", nack_post)])

    # ---- heartbeat of a peer (FlexiblePaxosNode tells its own timer apart by `self_heartbeat`; MultiPaxosNode does not:
    #      its own timer event runs this same path and ends its leadership - a liveness defect, see the report) ----
    def heartbeat_post(s):
        old, new, req = s.old(s.self), s.self, md(s.old(s.event))
        hb = BD.mk(z3.IntVal(0), z3.If(MSG.has(req, "ballot_number"), M.f_ballot_number(req), z3.IntVal(0)),
                   z3.If(MSG.has(req, "ballot_node"), M.f_ballot_node(req), z3.StringVal("")))
        current = mk_bool(bt_le(cur_ballot(old), hb))
        return (ite_b(current, mk_bool(bt_eq(cur_ballot(new), hb)) & Not(new._is_leader)
                      & mk_bool(field_term(new, "_leader") == OPTSTR.dt.some(BD.node_id(hb))),
                      unchanged(s, new) & log_untouched(s))
                & commit_never_backwards(s) & mk_bool(entries_of(new) == entries_of(old)))
    fn(K, "_handle_heartbeat", args={"event": Ref(Event)}, uses=BCMP + [CONTRACTS_K["apply"]], **LOGFOCUS,
       requires=[("a-peers-heartbeat", lambda s: Not(mhas(md(s.event), "self_heartbeat")))],
       ensures=[("a-heartbeat-at-or-above-the-promise-moves-the-promise-to-it-and-ends-the-own-leadership--a-stale-one-is-ignored--"
                 "the-commit-index-never-moves-back", heartbeat_post)])


P1F = Map(Int, Seq(Any))
ACKS = Map(Int, Int)
slot_node(FlexiblePaxosNode, F_FLEX, "FlexPaxos", lambda o: o._phase1_quorum, lambda o: o._phase2_quorum, None)
slot_node(MultiPaxosNode, F_MULTI, "MultiPaxos", lambda o: quorum(o), lambda o: quorum(o), None)

"""C12 - Paxos family: at most one value per instance, and a proposed one.

Per-node clauses every Paxos safety proof rests on (DESIGN.md section 3-C12: A1 acceptor, A2 proposer,
A3 learner, A4 validity), proved on the real handlers of paxos.py; the cross-node composition is the
classical paper argument, its combinatorial steps (ballot order, quorum intersection) are lemmas.
"""
from pyvc.spec import *

from pyvc import ctx as _ctx  # noqa: E402
from pyvc.heap import Box, _default_of  # noqa: E402
from pyvc.types import Ty  # noqa: E402

F_PAXOS = "happysimulator/components/consensus/paxos.py"
F_LOCK = "happysimulator/components/consensus/distributed_lock.py"

# ---------------------------------------------------------------------------- ghost statements / loop contracts
# _start_phase2 scans the promises of a ballot for the highest accepted ballot.  Ghost: g_n counts the
# responses visited, self.g_pick is the index of the response whose value is currently chosen (-1: none,
# the client's value stands).  (The helpers used by the invariant are defined further down.)
ghost(F_PAXOS, "PaxosNode._start_phase2", "chosen_value = self._proposed_values.get(ballot_number)", "g_n = 0; self.g_pick = -1")
ghost(F_PAXOS, "PaxosNode._start_phase2", "ab = resp.get('accepted_ballot')", "g_n = g_n + 1", where="before")
ghost(F_PAXOS, "PaxosNode._start_phase2", "chosen_value = resp['accepted_value']", "self.g_pick = g_n - 1")

loop(F_PAXOS, "PaxosNode._start_phase2", 1, modifies=[("PaxosNode", "g_pick")],
     types={"g_n": lambda: Int, "highest_accepted_ballot": lambda: Opt(BTUP), "chosen_value": lambda: Any}, inv=[
    ("ghost-counter-is-the-index", lambda L: L.g_n == L.i),
    ("chosen-value-is-that-of-the-highest-accepted-ballot-seen-else-the-clients", lambda L: pick_ok(
        L.self, seq_term(L.seq), L.i, L.self.g_pick, L.chosen_value, L.old(L.self)._proposed_values.get(L.ballot_number),
        L.highest_accepted_ballot))])

from specs.common import *  # noqa: E402,F401

from happysimulator.components.consensus.paxos import Ballot, PaxosNode  # noqa: E402
from happysimulator.components.network.network import Network  # noqa: E402
from happysimulator.core.sim_future import SimFuture  # noqa: E402

PROPERTY = {
    "id": "C12",
    "level": "proof",
    "trusted": ["heap typing of the fields declared in specs/C12.py and specs/common.py"],
    "assumptions": COMMON_ASSUMPTIONS + [
    ],
}


# ============================================================================ 0. message typing
# (local copies of the record / event-context types of specs/C11.py: heterogeneous dicts with literal
# keys - the "metadata" of an event - as records with a presence set)
class RecFieldLoc:
    def __init__(self, parent, rty, k):
        self.parent, self.rty, self.k = parent, rty, k

    def get(self):
        return self.rty.acc(self.k)(self.parent.get())

    def set(self, t):
        self.parent.set(self.rty.rebuild(self.parent.get(), vals={self.k: t}))


class Record(Ty):
    """dict with literal string keys of fixed value types: presence set + one typed slot per key"""

    def __init__(self, name, fields):
        self.name, self.fields = name, dict(fields)
        d = z3.Datatype("Rec_" + name)
        d.declare("mk", ("has", z3.ArraySort(z3.StringSort(), z3.BoolSort())),
                  *[("f_" + k, ty.sort()) for k, ty in self.fields.items()])
        self.dt = d.create()

    def sort(self):
        return self.dt

    def acc(self, k):
        return getattr(self.dt, "f_" + k)

    def has(self, term, k):
        return z3.Select(self.dt.has(term), z3.StringVal(k))

    def empty(self):
        return self.dt.mk(z3.K(z3.StringSort(), z3.BoolVal(False)), *[_default_of(ty.sort()) for ty in self.fields.values()])

    def rebuild(self, m, has=None, vals=None):
        vals = vals or {}
        return z3.simplify(self.dt.mk(has if has is not None else self.dt.has(m),
                                      *[vals.get(k, self.acc(k)(m)) for k in self.fields]))

    def wrap(self, term, loc=None):
        return RecProxy(loc if loc is not None else Box(term), self)

    def unwrap(self, v):
        if isinstance(v, RecProxy) and v._ty is self:
            return v._loc.get()
        if isinstance(v, dict):
            p = RecProxy(Box(self.empty()), self)
            for k, x in v.items():
                p[k] = x
            return p._loc.get()
        raise OutOfReach(f"{type(v).__name__} stored where record {self.name} is declared")


class RecProxy:
    def __init__(self, loc, ty):
        self._loc, self._ty = loc, ty

    @property
    def term(self):
        return self._loc.get()

    def _key(self, k):
        if not isinstance(k, str) or k not in self._ty.fields:
            raise OutOfReach(f"key {k!r} is not declared in record {self._ty.name}")
        return k

    def _val(self, k):
        return self._ty.fields[k].wrap(self._ty.acc(k)(self.term), RecFieldLoc(self._loc, self._ty, k))

    def get(self, k, default=None):
        k = self._key(k)
        if not _ctx.cur().branch(self._ty.has(self.term, k), site="rec:" + k):
            return default
        return self._val(k)

    def __getitem__(self, k):
        k = self._key(k)
        if not _ctx.cur().branch(self._ty.has(self.term, k), site="rec:" + k):
            raise KeyError(k)
        return self._val(k)

    def __contains__(self, k):
        return _ctx.cur().branch(self._ty.has(self.term, self._key(k)), site="rec:" + k)

    def __setitem__(self, k, v):
        k = self._key(k)
        m = self.term
        self._loc.set(self._ty.rebuild(m, has=z3.Store(self._ty.dt.has(m), z3.StringVal(k), z3.BoolVal(True)),
                                       vals={k: self._ty.fields[k].unwrap(v)}))

    def update(self, other):
        if isinstance(other, dict):
            for k, v in other.items():
                self[k] = v
            return
        if isinstance(other, RecProxy) and other._ty is self._ty:
            m, o, ty = self.term, other.term, self._ty
            self._loc.set(ty.rebuild(m, has=z3.SetUnion(ty.dt.has(m), ty.dt.has(o)),
                                     vals={k: z3.If(ty.has(o, k), ty.acc(k)(o), ty.acc(k)(m)) for k in ty.fields}))
            return
        raise OutOfReach("record.update with an unmodelled argument")

    def __bool__(self):
        return _ctx.cur().branch(self._ty.dt.has(self.term) != z3.K(z3.StringSort(), z3.BoolVal(False)), site="rec:bool")

    def copy(self):
        return RecProxy(Box(self.term), self._ty)

    __hash__ = None


OPTSTR = Opt(Str)
OPTINT = Opt(Int)
BTUP = Tuple(Int, Str)                      # (number, node_id) as carried inside promise records
MSG = Record("paxosmsg", {
    "source": Str, "destination": Str, "from": Str,
    "ballot_number": Int, "ballot_node": Str,
    "accepted_ballot_number": OPTINT, "accepted_ballot_node": OPTSTR, "accepted_value": Any,
    "highest_ballot_number": Int, "highest_ballot_node": Str,
    "value": Any, "original_ballot": Int,
    "lock_name": Str, "fencing_token": Int, "requester": Str,
})
M = MSG.dt


class CtxProxy:
    """Event.context: only the 'metadata' entry is modelled ('id'/'created_at' are write-only here)"""

    def __init__(self, loc):
        self._loc = loc

    def _md(self, k):
        if k != "metadata":
            raise OutOfReach(f"event context key {k!r} is not modelled in specs/C12.py")
        return RecProxy(self._loc, MSG)

    def get(self, k, default=None):
        return self._md(k)

    __getitem__ = _md

    def setdefault(self, k, v=None):
        return v if k in ("id", "created_at") else self._md(k)

    def copy(self):
        return CtxProxy(Box(self._loc.get()))

    __hash__ = None


class _CtxTy(Ty):
    name = "EventContext"

    def sort(self):
        return MSG.sort()

    def wrap(self, term, loc=None):
        return CtxProxy(loc if loc is not None else Box(term))

    def unwrap(self, v):
        if isinstance(v, CtxProxy):
            return v._loc.get()
        if isinstance(v, dict) and set(v) <= {"id", "created_at", "metadata"}:
            return MSG.unwrap(v.get("metadata", {}))
        raise OutOfReach(f"{type(v).__name__} stored as event context")


CTX = _CtxTy()
cls(Event, fields={"context": CTX})          # overrides the opaque Map(Str, Any) typing of specs/common.py (this check only)


def md(event, state=None):
    """raw MSG term of an event's metadata"""
    return field_term(event, "context", state)


def mhas(m, *keys):
    return mk_bool(z3.And(*[MSG.has(m, k) for k in keys]))


def mget(m, k):
    """wrapped scalar field of a raw message term (no fork for scalar types)"""
    return MSG.fields[k].wrap(MSG.acc(k)(m))


def zi(x):
    return num(x)


def zs(x):
    """raw z3 string term of a python / symbolic string"""
    return Str.unwrap(x)


def ite_b(c, a, b):
    return implies(c, a) & implies(Not(c), b)


def pb(x):
    """python bool -> symbolic bool (so that `&` keeps a clause one formula)"""
    return mk_bool(z3.BoolVal(x)) if isinstance(x, bool) else x


# ============================================================================ A. ballots
# Ballot is a frozen, ordered dataclass: the generated comparisons are the lexicographic order on
# (number, node_id).  Every clause below speaks about that order through b_lt / b_le on raw terms.
BALLOT = valueclass("Ballot", [Ballot], [("number", Int), ("node_id", Str)])
BD = BALLOT.dt
OPTBALLOT = Opt(BALLOT)
OB = OPTBALLOT.dt


def b_lt_raw(n1, s1, n2, s2):
    return z3.Or(n1 < n2, z3.And(n1 == n2, s1 < s2))


def b_le_raw(n1, s1, n2, s2):
    return z3.Or(n1 < n2, z3.And(n1 == n2, s1 <= s2))


def b_lt(a, b):
    """a < b for two Ballot objects (symbolic fields)"""
    return mk_bool(b_lt_raw(zi(a.number), zs(a.node_id), zi(b.number), zs(b.node_id)))


def b_le(a, b):
    return mk_bool(b_le_raw(zi(a.number), zs(a.node_id), zi(b.number), zs(b.node_id)))


def b_eq(a, b):
    return (a.number == b.number) & (a.node_id == b.node_id)


for _op, _spec_fn in (("__lt__", lambda s: b_lt(s.self, s.other)), ("__le__", lambda s: b_le(s.self, s.other)),
                      ("__gt__", lambda s: b_lt(s.other, s.self)), ("__ge__", lambda s: b_le(s.other, s.self)),
                      ("__eq__", lambda s: b_eq(s.self, s.other))):
    fn(Ballot, _op, self_ty=BALLOT, args={"other": BALLOT}, inv=False, ensures=[
        ("lexicographic-on-number-then-node", lambda s, f=_spec_fn: iff(s.result, f(s)))])


def _ballot_order_lemma():
    N = [fresh(Int, f"n{i}") for i in range(3)]
    S = [fresh(Str, f"s{i}") for i in range(3)]

    def lt(i, j):
        return mk_bool(b_lt_raw(zi(N[i]), zs(S[i]), zi(N[j]), zs(S[j])))

    def eq(i, j):
        return (N[i] == N[j]) & (S[i] == S[j])
    oblige("irreflexive", Not(lt(0, 0)))
    oblige("transitive", implies(lt(0, 1) & lt(1, 2), lt(0, 2)))
    oblige("total", lt(0, 1) | lt(1, 0) | eq(0, 1))
    oblige("antisymmetric", Not(lt(0, 1) & lt(1, 0)))
    oblige("ballots-of-distinct-proposers-differ", implies(S[0] != S[1], Not(eq(0, 1))))


lemma("ballot-order-is-a-strict-total-order", _ballot_order_lemma)

# ============================================================================ B. single-decree Paxos node
cls(SimFuture, fields={"_resolved": Bool, "_value": Any, "_parked_process": Any, "_parked_event_type": Any,
                       "_parked_daemon": Bool, "_parked_target": Any, "_parked_on_complete": Any,
                       "_parked_context": Any, "_settle_callbacks": Seq(Any)})
cls(Network, fields={})

PROMISE = Record("promise", {"from": OPTSTR, "accepted_ballot": Opt(BTUP), "accepted_value": Any})
NODE = Ref(PaxosNode)
FUTS = Map(Int, Ref(SimFuture))
cls(PaxosNode, fields={
    "_network": Ref(Network), "_peers": Seq(NODE), "_retry_delay": Real,
    "_promised_ballot": OPTBALLOT, "_accepted_ballot": OPTBALLOT, "_accepted_value": Any,
    "_current_ballot": BALLOT, "_proposal_futures": FUTS,
    "_phase1_responses": Map(Int, Seq(PROMISE)), "_phase2_responses": Map(Int, Int),
    "_proposed_values": Map(Int, Any),
    "_decided": Bool, "_decided_value": Any,
    "_proposals_started": Int, "_proposals_succeeded": Int, "_proposals_failed": Int,
    "_promises_received": Int, "_nacks_received": Int, "_accepts_received": Int},
    const=["_network", "_peers", "_retry_delay"])


def promised(o):
    """raw Opt(Ballot) term of the promise register"""
    return field_term(o, "_promised_ballot")


def accepted(o):
    return field_term(o, "_accepted_ballot")


def ob_none(t):
    return mk_bool(OB.is_none(t))


def ob_le(a, b):
    """a <= b on raw Opt(Ballot) terms, None below everything"""
    va, vb = OB.val(a), OB.val(b)
    return mk_bool(z3.Or(OB.is_none(a), z3.And(z3.Not(OB.is_none(b)), b_le_raw(
        BD.number(va), BD.node_id(va), BD.number(vb), BD.node_id(vb)))))


NODE_INV = [
    # configuration: the quantifier of the property ranges over clusters of 3..5 nodes
    ("cluster-of-3-to-5", lambda o: (2 <= slen(o._peers)) & (slen(o._peers) <= 4)),
    # A1: whatever was accepted was accepted under a promise at least as high
    ("accepted-ballot-never-above-promise", lambda o: ob_le(accepted(o), promised(o))),
]
NODE_GUAR = [
    ("A1-promise-never-decreases", lambda old, new: ob_le(promised(old), promised(new))),
    ("A1-accepted-ballot-never-decreases", lambda old, new: ob_le(accepted(old), accepted(new))),
    ("A3-decision-is-stable", lambda old, new: implies(old._decided, new._decided & (new._decided_value == old._decided_value))),
]
cls(PaxosNode, inv=NODE_INV, guarantee=NODE_GUAR)

fn(PaxosNode, "quorum_size", returns=Int, modifies=[], ensures=[
    ("strict-majority-of-the-cluster", lambda s: (2 * s.result > slen(s.self._peers) + 1)
        & (2 * (s.result - 1) <= slen(s.self._peers) + 1)),
    ("pure", lambda s: unchanged(s, s.self))])

# ---- helpers over the messages a handler returns ----------------------------------------------------
stub_of(SimFuture, "resolve", args={"value": Any}, modifies=["_resolved", "_value"], ensures=[
    lambda s: ite_b(s.old(s.self)._resolved, unchanged(s, s.self, "_resolved", "_value"),
                    s.self._resolved & (s.self._value == s.value))])
FUT_RESOLVE = (SimFuture, "resolve")


def resolved_values():
    """the values passed to SimFuture.resolve on this path (ghost call trace of the stub)"""
    tr = _ctx.cur().ghost_args.get("trace", [])
    return [vals["value"] for (q, vals, _r) in tr if q == "SimFuture.resolve"]


def any_eq(a, b):
    """equality of two opaque values (python None / concrete values are injected first)"""
    return mk_bool(Any.unwrap(a) == Any.unwrap(b))


def msgs(s):
    """the (concrete-length: peers are iterated natively, 2..4 of them) list of events a handler returned"""
    r = s.result
    return [] if r is None else list(r)


def n_peers(o):
    """number of peers as a python int (the peer list has a concrete length on every explored path
    once it was iterated); None when still symbolic"""
    n = slen(o._peers)
    if isinstance(n, int):
        return n
    t = z3.simplify(num(n))
    return t.as_long() if z3.is_int_value(t) else None


def to_peer_via_network(s, e, j=None):
    """e is addressed to the network, from this node, stamped now, not cancelled"""
    m = md(e)
    ok = same(e.target, s.self._network) & (ns(e.time) == now_ns(s.self._network)) & Not(e._cancelled) & e.daemon
    ok = ok & mhas(m, "source", "destination") & (mget(m, "source") == s.self.name)
    if j is not None:
        ok = ok & (mget(m, "destination") == peer_at(s.self, j).name)
    return ok


def peer_at(o, j):
    """the j-th peer (no fork): proxy over the raw sequence element"""
    return ObjProxy(seq_term(o._peers)[zi(j)], PaxosNode)


def one_per_peer(s, kind, body, es=None):
    """the events `es` (default: everything returned) are exactly one `kind` message per peer, in peer
    order, each satisfying body(raw metadata)"""
    es = msgs(s) if es is None else es
    ok = slen(s.self._peers) == len(es)
    for j, e in enumerate(es):
        ok = ok & (e.event_type == kind) & to_peer_via_network(s, e, j) & body(md(e))
    return ok


# ---- learner (A3) ---------------------------------------------------------------------------------
def _propose_post_fresh(s):
    old = s.old(s.self)
    n = s.self._current_ballot.number
    return implies(Not(old._decided),
                   (n > old._current_ballot.number)
                   & mk_bool(z3.Or(OB.is_none(promised(old)), zi(n) > BD.number(OB.val(promised(old)))))
                   & (s.self._current_ballot.node_id == s.self.name)
                   & contains(s.self._proposed_values, n) & any_eq(s.self._proposed_values.get(n), s.value)
                   & contains(s.self._proposal_futures, n) & same(s.self._proposal_futures.get(n), s.result)
                   & Not(s.result._resolved))


fn(PaxosNode, "propose", args={"value": Any}, uses=[FUT_RESOLVE], ensures=[
    ("after-a-decision-the-future-resolves-with-the-decided-value", lambda s: implies(
        s.old(s.self)._decided, s.result._resolved & (s.result._value == s.self._decided_value) & unchanged(s, s.self))),
    ("fresh-ballot-above-everything-seen-carrying-the-clients-value", _propose_post_fresh),
    ("acceptor-and-learner-state-untouched", lambda s: unchanged(
        s, s.self, "_promised_ballot", "_accepted_ballot", "_accepted_value", "_decided", "_decided_value"))])

fn(PaxosNode, "_handle_decided", args={"event": Ref(Event)},
   requires=[("well-formed-announcement", lambda s: mhas(md(s.event), "value"))],
   ensures=[
    ("learns-exactly-the-announced-value-once", lambda s: ite_b(
        s.old(s.self)._decided, unchanged(s, s.self),
        s.self._decided & (s.self._decided_value == mget(md(s.old(s.event)), "value")))),
    ("acceptor-state-untouched", lambda s: unchanged(s, s.self, "_promised_ballot", "_accepted_ballot", "_accepted_value"))])


def decided_msg(m, value):
    return mhas(m, "value") & any_eq(mget(m, "value"), value)


def _decide_post(s):
    old = s.old(s.self)
    if old._decided:
        return unchanged(s, s.self) & pb(len(s.result) == 0) & pb(len(resolved_values()) == 0)
    ok = s.self._decided & (s.self._decided_value == s.value)
    ok = ok & one_per_peer(s, "PaxosDecided", lambda m: decided_msg(m, s.value))
    for v in resolved_values():
        ok = ok & any_eq(v, s.value)
    return ok


fn(PaxosNode, "_decide", args={"ballot_number": Int, "value": Any}, uses=[FUT_RESOLVE], ensures=[
    ("first-decision-sticks-is-announced-to-every-peer-and-resolves-the-future-with-it", _decide_post),
    ("acceptor-state-untouched", lambda s: unchanged(s, s.self, "_promised_ballot", "_accepted_ballot", "_accepted_value"))])


# ---- acceptor (A1) ----------------------------------------------------------------------------------
def msg_ballot(m):
    """raw Ballot term of the ballot a message carries"""
    return BD.mk(z3.IntVal(0), M.f_ballot_number(m), M.f_ballot_node(m))


def bt_lt(a, b):
    """a < b on raw Ballot terms"""
    return b_lt_raw(BD.number(a), BD.node_id(a), BD.number(b), BD.node_id(b))


def bt_eq(a, b):
    return z3.And(BD.number(a) == BD.number(b), BD.node_id(a) == BD.node_id(b))


def below_promise(o, b):
    """the node has promised a ballot strictly above the raw ballot b"""
    p = promised(o)
    return mk_bool(z3.And(z3.Not(OB.is_none(p)), bt_lt(b, OB.val(p))))


def holds_ballot(t, b):
    """the raw Opt(Ballot) register t holds exactly ballot b"""
    return mk_bool(z3.And(z3.Not(OB.is_none(t)), bt_eq(OB.val(t), b)))


def known_sender(s):
    """some peer carries the name in the request's `source`"""
    req = md(s.old(s.event))
    n = slen(s.self._peers)
    return mhas(req, "source") & exists(Int, lambda j: (0 <= j) & (j < n) & (peer_at(s.self, j).name == mget(req, "source")), "j")


def reply(s, kind):
    """the handler returned exactly one `kind` message, addressed to the sender of the request"""
    es = msgs(s)
    if len(es) != 1:
        return False
    e = es[0]
    return (e.event_type == kind) & to_peer_via_network(s, e) & (mget(md(e), "destination") == mget(md(s.old(s.event)), "source"))


def nack_ok(s, b):
    """a Nack names the refused ballot and the promise that outranks it"""
    if len(msgs(s)) != 1:
        return False
    m = md(msgs(s)[0])
    p = OB.val(promised(s.old(s.self)))
    return (reply(s, "PaxosNack") & mhas(m, "ballot_number", "ballot_node", "highest_ballot_number", "highest_ballot_node")
            & mk_bool(bt_eq(msg_ballot(m), b))
            & mk_bool(z3.And(M.f_highest_ballot_number(m) == BD.number(p), M.f_highest_ballot_node(m) == BD.node_id(p))))


def reports_accepted(o, num_t, node_t, val_t):
    """(num, node, value) - raw Opt(Int), Opt(Str), Any terms - are exactly the node's accepted ballot and value
    (both None while nothing was accepted)"""
    a = accepted(o)
    av = OB.val(a)
    return mk_bool(z3.If(OB.is_none(a),
                         z3.And(OPTINT.dt.is_none(num_t), OPTSTR.dt.is_none(node_t)),
                         z3.And(num_t == OPTINT.dt.some(BD.number(av)), node_t == OPTSTR.dt.some(BD.node_id(av))))
                   ) & mk_bool(val_t == field_term(o, "_accepted_value"))


def _prepare_post(s):
    old, req = s.old(s.self), md(s.old(s.event))
    b = msg_ballot(req)
    es = msgs(s)
    if len(es) == 0:
        return Not(known_sender(s)) & unchanged(s, s.self)
    m = md(es[0])
    refused = below_promise(old, b)
    return known_sender(s) & ite_b(
        refused,
        nack_ok(s, b) & unchanged(s, s.self),
        reply(s, "PaxosPromise") & holds_ballot(promised(s.self), b)
        & mhas(m, "ballot_number", "ballot_node", "from", "accepted_ballot_number", "accepted_ballot_node", "accepted_value")
        & mk_bool(bt_eq(msg_ballot(m), b)) & (mget(m, "from") == s.self.name)
        & reports_accepted(old, M.f_accepted_ballot_number(m), M.f_accepted_ballot_node(m), M.f_accepted_value(m))
        & unchanged(s, s.self, "_accepted_ballot", "_accepted_value"))


BALLOT_KEYS = ("ballot_number", "ballot_node")
fn(PaxosNode, "_handle_prepare", args={"event": Ref(Event)},
   requires=[("well-formed-prepare", lambda s: mhas(md(s.event), *BALLOT_KEYS))],
   ensures=[
    ("A1-promise-iff-not-below-earlier-promise--reporting-the-accepted-ballot-and-value--else-nack", _prepare_post),
    ("learner-and-proposer-state-untouched", lambda s: unchanged(
        s, s.self, "_decided", "_decided_value", "_current_ballot", "_proposed_values", "_phase1_responses", "_phase2_responses"))])


def _accept_post(s):
    old, req = s.old(s.self), md(s.old(s.event))
    b = msg_ballot(req)
    es = msgs(s)
    if len(es) == 0:
        return Not(known_sender(s)) & unchanged(s, s.self)
    m = md(es[0])
    refused = below_promise(old, b)
    return known_sender(s) & ite_b(
        refused,
        nack_ok(s, b) & unchanged(s, s.self),
        reply(s, "PaxosAccepted") & holds_ballot(promised(s.self), b) & holds_ballot(accepted(s.self), b)
        & (s.self._accepted_value == mget(req, "value"))
        & mhas(m, "ballot_number", "ballot_node", "from") & mk_bool(bt_eq(msg_ballot(m), b)) & (mget(m, "from") == s.self.name))


fn(PaxosNode, "_handle_accept", args={"event": Ref(Event)},
   requires=[("well-formed-accept", lambda s: mhas(md(s.event), "value", *BALLOT_KEYS))],
   ensures=[
    ("A1-accepts-iff-not-below-promise--stores-exactly-the-offered-ballot-and-value--else-nack", _accept_post),
    ("learner-and-proposer-state-untouched", lambda s: unchanged(
        s, s.self, "_decided", "_decided_value", "_current_ballot", "_proposed_values", "_phase1_responses", "_phase2_responses"))])

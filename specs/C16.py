"""C16 - caches stay within capacity, never lose writes, respect staleness bounds.

Part A: the nine eviction policies against the set view `tracked` (+ victim clauses).
Part B: CachedStore against the CacheEvictionPolicy interface contract (capacity, tracked == keys,
        dirty subset, write-back safety, read/write races of the miss fill).
Part C: SoftTTLCache (hard-TTL bound, LRU bookkeeping, background refresh handler), Part D: MultiTierCache
        (incl. get/put over the tier generators), Part E: write policies, Part F: PageCache (capacity, dirty write-back;
        needs the page-cache repair - source test PC_REPAIRED).
See DESIGN.md section 3-C16.
"""
from pyvc.spec import *

F_CS = "happysimulator/components/datastore/cached_store.py"
F_EP = "happysimulator/components/datastore/eviction_policies.py"

# ---------------------------------------------------------------------------- view helpers
SSET = Set(Str)
CMAP = Map(Str, Any)
EMPTY_S = z3.K(z3.StringSort(), z3.BoolVal(False))


def kt(k):
    """raw z3 string term of a key (symbolic or concrete)"""
    return k.t if hasattr(k, "t") else z3.StringVal(k)


def sdom(x):
    """SymSet / SymDict -> its domain as Array(Str, Bool)"""
    return x._ty.dt.dom(x.term)


def mval(d, k):
    """raw value term of d[k] (meaningful only where k is in the domain)"""
    return z3.Select(d._ty.dt.val(d.term), kt(k))


def has(x, k):
    return mk_bool(z3.Select(sdom(x), kt(k)))


def dom_eq(a, b):
    return mk_bool(a == b)


def without(dom, k):
    return z3.Store(dom, kt(k), z3.BoolVal(False))


def with_(dom, k):
    return z3.Store(dom, kt(k), z3.BoolVal(True))


# ---------------------------------------------------------------------------- loop contracts
# CachedStore._cache_put:  while len(self._cache) >= self._cache_capacity: evict ...
def _cs_inv_dom(o):
    return dom_eq(sdom(o._eviction_policy.g_tracked), sdom(o._cache))


loop(F_CS, "CachedStore._cache_put", 1,
     modifies=[("CachedStore", "_cache"), ("CachedStore", "_dirty_keys"), ("CachedStore", "_evictions"),
               ("CachedStore", "_writebacks"), ("CacheEvictionPolicy", "g_tracked"),
               ("KVStore", "_data"), ("KVStore", "_insertion_order")],
     types={"evict_key": Opt(Str), "evicted_value": Any},
     decreases=lambda L: slen(L.self._cache),
     inv=[
         ("tracked-is-keys", lambda L: _cs_inv_dom(L.self)),
         ("dirty-subset", lambda L: mk_bool(z3.IsSubset(sdom(L.self._dirty_keys), sdom(L.self._cache)))),
         ("key-still-absent", lambda L: Not(has(L.self._cache, L.key))),
         ("only-shrinks", lambda L: mk_bool(z3.IsSubset(sdom(L.self._cache), sdom(L.old(L.self)._cache)))),
         ("kept-entries-unchanged", lambda L: forall(Str, lambda k: implies(
             has(L.self._cache, k), mk_bool(mval(L.self._cache, k) == mval(L.old(L.self)._cache, k))))),
         ("dirty-only-leaves-written", lambda L: _written_back(L.old(L.self), L.self)),
         ("dirty-set-only-shrinks", lambda L: mk_bool(z3.IsSubset(sdom(L.self._dirty_keys), sdom(L.old(L.self)._dirty_keys)))),
         ("cached-dirty-stays-dirty", lambda L: forall(Str, lambda k: implies(
             has(L.old(L.self)._dirty_keys, k) & has(L.self._cache, k), has(L.self._dirty_keys, k)))),
         ("backing-store-only-receives-dirty-values", lambda L: _backing_frame(L)),
         ("size-only-shrinks", lambda L: slen(L.self._cache) <= slen(L.old(L.self)._cache)),
         ("no-eviction-unless-full", lambda L: implies(
             slen(L.old(L.self)._cache) < L.self._cache_capacity,
             mk_bool(sdom(L.self._cache) == sdom(L.old(L.self)._cache)))),
         ("counters", lambda L: (L.self._evictions >= L.old(L.self)._evictions)
             & (L.self._writebacks >= L.old(L.self)._writebacks)),
     ])


def _written_back(old, new, deleted_key=None):
    """write-back safety (two-state): a key that was dirty and no longer is has its cached value
    in the backing store (except a key the caller asked to delete)"""
    b = new._backing_store
    return forall(Str, lambda k: implies(
        has(old._dirty_keys, k) & Not(has(new._dirty_keys, k))
        & (True if deleted_key is None else mk_bool(kt(k) != kt(deleted_key))),
        has(b._data, k) & mk_bool(mval(b._data, k) == mval(old._cache, k))))


# CachedStore.invalidate_all (repaired tree): for key in self._dirty_keys: write back, then clear
loop(F_CS, "CachedStore.invalidate_all", 1,
     modifies=[("CachedStore", "_writebacks"), ("KVStore", "_data"), ("KVStore", "_insertion_order")],
     inv=[
         ("visited-written-back", lambda L: _visited_written_back(L)),
         ("backing-store-only-receives-dirty-values", lambda L: _backing_frame(L)),
     ]).as_set = True


def _visited_written_back(L):
    """every dirty key enumerated so far has its cached value in the backing store.  The loop is enumerated as a
    set (L.visited) both for `for key in self._dirty_keys` and for `for key in sorted(self._dirty_keys)` (the C03
    hash-seed repair; `as_set` below): the order does not matter for this invariant, and z3 cannot carry it over
    the positions of a sorted sequence"""
    b = L.self._backing_store

    def written(k):
        return implies(has(L.self._cache, k), has(b._data, k) & mk_bool(mval(b._data, k) == mval(L.self._cache, k)))
    return forall(Str, lambda k: implies(contains(L.visited, k), written(k)))

# CachedStore.flush: for key in list(self._dirty_keys): ... yield from backing.put ... ; the body yields, so
# the whole heap may change in it (modifies="world"); the constant configuration is the frame.
CS_CONST = ["_backing_store", "_cache_capacity", "_eviction_policy", "_cache_read_latency", "_write_through"]
KV_CONST = ["_read_latency", "_write_latency", "_delete_latency", "_capacity"]
loop(F_CS, "CachedStore.flush", 1, modifies="world",
     keeps=[("CachedStore", f) for f in CS_CONST] + [("KVStore", f) for f in KV_CONST]
     + [("Entity", "_clock"), ("Entity", "name")],
     types={"key": Str, "value": Any},
     inv=[
         ("inv-capacity-positive", lambda L: L.self._cache_capacity >= 1),
         ("inv-never-above-capacity", lambda L: slen(L.self._cache) <= L.self._cache_capacity),
         ("inv-tracked-is-keys", lambda L: _cs_inv_dom(L.self)),
         ("inv-dirty-subset-of-cached", lambda L: mk_bool(z3.IsSubset(sdom(L.self._dirty_keys), sdom(L.self._cache)))),
         ("inv-write-through-has-no-dirty", lambda L: implies(L.self._write_through, mk_bool(sdom(L.self._dirty_keys) == EMPTY_S))),
         ("flushed-nonneg", lambda L: L.flushed >= 0),
         # the class guarantees, relative to the state at entry (they are closed under composition)
         ("write-tickets-only-grow", lambda L: forall(Str, lambda k:
             L.self.g_writes.get(k, 0) >= L.old(L.self).g_writes.get(k, 0))),
         ("entry-becomes-dirty-only-by-a-new-write", lambda L: forall(Str, lambda k: implies(
             Not(has(L.old(L.self)._dirty_keys, k)) & has(L.self._dirty_keys, k),
             L.self.g_writes.get(k, 0) > L.old(L.self).g_writes.get(k, 0)))),
         # flush's own steps since entry / the last resume (trivial right after the loop-head havoc)
         ("dirty-only-leaves-written-since-the-last-wait", lambda L: _written_back(L.since(L.self), L.self)),
     ])
# ghost assertion at the place where flush marks a key clean
ghost(F_CS, "CachedStore.flush", "self._dirty_keys.discard(key)", "_c16_clean_check(self, key)", where="before")

# LFUEviction.evict: for key, count in self._counts.items(): if count == min_count: del; return key
loop(F_EP, "LFUEviction.evict", 1, types={"key": Str, "count": Int}, inv=[
    ("no-visited-key-has-the-minimal-count", lambda L: forall(Str, lambda k: implies(
        contains(L.visited, k), L.self._counts.get(k, 0) != L.min_count)))])

# TTLEviction.evict: for key, insert_time in list(self._insert_times.items()): if expired: del; return key
loop(F_EP, "TTLEviction.evict", 1, types={"key": Str, "insert_time": Real}, inv=[
    ("no-visited-key-is-expired", lambda L: forall(Str, lambda k: implies(
        contains(L.visited, k), L.now - L.self._insert_times.get(k, 0.0) < L.self._ttl)))])

# SoftTTLCache._store:  while len(self._cache) >= self._cache_capacity: self._evict_lru()
F_ST = "happysimulator/components/datastore/soft_ttl_cache.py"


def _st_order_is_keys(o):
    return mk_bool(o._access_order._ty.dt.dom(o._access_order.term) == sdom(o._cache))


loop(F_ST, "SoftTTLCache._store", 1,
     modifies=[("SoftTTLCache", "_cache"), ("SoftTTLCache", "_access_order"), ("SoftTTLCache", "_evictions")],
     decreases=lambda L: slen(L.self._cache),
     inv=[
         ("order-is-keys", lambda L: _st_order_is_keys(L.self)),
         ("key-still-absent", lambda L: Not(has(L.self._cache, L.key))),
         ("only-shrinks", lambda L: mk_bool(z3.IsSubset(sdom(L.self._cache), sdom(L.old(L.self)._cache)))),
         ("kept-entries-unchanged", lambda L: forall(Str, lambda k: implies(
             has(L.self._cache, k), mk_bool(mval(L.self._cache, k) == mval(L.old(L.self)._cache, k))))),
         ("size-only-shrinks", lambda L: slen(L.self._cache) <= slen(L.old(L.self)._cache)),
         ("no-eviction-unless-full", lambda L: implies(
             slen(L.old(L.self)._cache) < L.self._cache_capacity,
             mk_bool(sdom(L.self._cache) == sdom(L.old(L.self)._cache)))),
     ])
# ghost assertion where get() serves an entry on the coalesced-refresh path
ghost(F_ST, "SoftTTLCache.get", "return self._cache[key].value", "_c16_served_check(self, key)", where="before")

# ghost ticket: number of writes (put / delete) to a key that have *started* on this cache
ghost(F_CS, "CachedStore.put", "", "self.g_writes[key] = self.g_writes.get(key, 0) + 1", where="entry")
ghost(F_CS, "CachedStore.delete", "", "self.g_writes[key] = self.g_writes.get(key, 0) + 1", where="entry")

# ---- PageCache (part F).  The contracts need the repair fixes/C16_page-cache-capacity-after-disk-read.diff (+ the
# flush snapshot of fixes/C16_page-cache-flush-snapshot.diff): on the unrepaired tree the cache exceeds its capacity
# after a disk read, eviction crashes with KeyError and flush with RuntimeError (see the report); until the repairs
# are applied only PageCache._touch is under contract.
import os as _os  # noqa: E402
from pyvc.ctx import REPO as _REPO  # noqa: E402
F_PC = "happysimulator/components/infrastructure/page_cache.py"
_PC_SRC = open(_os.path.join(_REPO, F_PC)).read()
PC_REPAIRED = ("Make room only now" in _PC_SRC and "self._pages.pop(oldest_id, None)" in _PC_SRC) \
    or bool(_os.environ.get("C16_PAGE_CACHE_FORCE"))      # (env switch: show the failing obligations on the unrepaired tree)
PC_CONST = ["_capacity", "_page_size", "_readahead", "_disk_read_latency_s", "_disk_write_latency_s"]
PC_KEEPS = [("PageCache", f) for f in PC_CONST] + [("Entity", "_clock"), ("Entity", "name")]
PC_LOOP_INV = [
    ("inv-capacity-positive", lambda L: L.self._capacity >= 1),
    ("inv-never-above-capacity", lambda L: slen(L.self._pages) <= L.self._capacity),
    ("inv-latencies-nonneg", lambda L: (L.self._disk_read_latency_s >= 0) & (L.self._disk_write_latency_s >= 0)),
    ("inv-cached-page-objects-are-allocated", lambda L: _pc_pages_allocated(L.self)),
    # the function's own steps since entry / the last resume (trivial right after the loop-head havoc; an obligation
    # at loop entry and at the end of an iteration; cf. CachedStore.flush)
    ("dirty-page-leaves-or-becomes-clean-only-with-a-write-back", lambda L: _pc_wb(L.since(L.self), L.self)),
]
if PC_REPAIRED:
    # while len(self._pages) >= self._capacity: yield from self._evict_one()   (the body may yield: world)
    loop(F_PC, "PageCache._ensure_space", 1, modifies="world", keeps=PC_KEEPS, inv=PC_LOOP_INV)
    # for i in range(1, self._readahead + 1): ... yield disk latency ... insert if there is still room
    loop(F_PC, "PageCache.read_page", 1, modifies="world", keeps=PC_KEEPS, types={"ahead_id": Int}, inv=PC_LOOP_INV)

from specs.common import *  # noqa: E402,F401

from happysimulator.components.datastore.eviction_policies import (  # noqa: E402
    CacheEvictionPolicy, LRUEviction, LFUEviction, TTLEviction, FIFOEviction, RandomEviction,
    SLRUEviction, SampledLRUEviction, ClockEviction, TwoQueueEviction)
from happysimulator.components.datastore.cached_store import CachedStore  # noqa: E402
from happysimulator.components.datastore.kv_store import KVStore  # noqa: E402
from happysimulator.components.datastore.write_policies import WriteThrough, WriteBack, WriteAround  # noqa: E402

PROPERTY = {
    "id": "C16",
    "level": "proof",
    "trusted": ["heap typing of the fields declared in specs/C16.py and specs/common.py",
                "pyvc/omap.py: rank-based encoding of OrderedDict / list-of-distinct-items operations",
                "one-yield generator stubs (pyvc/verify.py make_stub with stub_yield) for the KVStore API"],
    "assumptions": COMMON_ASSUMPTIONS + [
        "cached values are opaque (only identity/equality observable) and are never None (None means 'absent' in the API)",
        "the backing KVStore of a cache layer is unbounded (KVStore._capacity is None): a bounded store that "
        "evicts its own data cannot keep writes by construction - configuration assumption",
        "an eviction policy object belongs to one cache (not shared between two CachedStore instances), and a "
        "cache's policy / backing store / capacity / write mode are not reassigned after construction",
        "CacheEvictionPolicy interface contract (stub_of on_access/on_insert/on_remove/evict/clear over the ghost "
        "set g_tracked) - every one of the nine implementations is checked against the same clauses in part A",
        "on_insert is only required to work for a key that is not tracked (call-site obligation in CachedStore); "
        "TwoQueue/SLRU would track a key twice otherwise",
        "KVStore.get/put/delete (kv_store.py is not an anchored file) are used through stub_of contracts: wait the "
        "configured latency (the environment runs), then ONE atomic effect on _data (read / store / remove); "
        "KVStore.put_sync (used by the repairs) runs inlined",
        "OrderedDicts and the lists _order/_a1in/_a1out/_access_order are modelled by pyvc/omap.py (position stamps: "
        "distinct per present key and below the next stamp - typing assumption of that model); a list holding a "
        "duplicate is OUT-OF-REACH, never assumed away",
        "random.Random.choice returns a member of its argument, random.Random.sample(p, k) a list of k members of p "
        "(stub_of, trusted random); min(..., key=f) over a collection of symbolic size is over-approximated by an "
        "arbitrary member, so Random / SampledLRU / TTL(else-branch) victims are only claimed to be tracked keys",
        "TTLEviction's clock is an arbitrary side-effect free callable returning a real",
        "MultiTierCache: tiers are CachedStore instances with their own eviction policies; contracts are checked "
        "for two tiers (delete: one tier - the two-tier obligations are undecided by z3 on the unrepaired tree); "
        "the promotion decision (_should_promote, enum-valued field) is an arbitrary boolean",
        "SoftTTLCache: the clock does not go backwards while get() is suspended (rely)",
        "MultiTierCache.get/put: checked for two CachedStore tiers whose get/put run inlined; tier backing stores and "
        "the multi-tier backing store are arbitrary (possibly the same) unbounded KVStores; lower tiers are only ever "
        "filled from outside the multi-tier API (the code fills and writes tier 0 only)",
        "MultiTierCache.get/put tasks run with 1/12 of the branch-feasibility budget and 1/8 of the obligation budget "
        "(_cheap_feasibility): an undecided feasibility query keeps the path, an obligation that needs more is "
        "UNDECIDED - neither can turn a failure into a pass",
        "SoftTTLCache.handle_event: Event.context is a nested dict ({'metadata': {'key': k}}) that the heap typing does "
        "not model; the handler is run on a native stand-in event carrying a symbolic key, i.e. the refresh event "
        "delivered is assumed to carry the key that _maybe_start_refresh put into it",
        "PageCache: _pages is an OrderedDict[int, _CachedPage] modelled by pyvc/omap.py; page objects are heap records "
        "(page_id, dirty); two page ids may alias one page object (not excluded, not needed); the contracts of "
        "_evict_one/_ensure_space/_load_page/read_page/write_page are active only on a tree that contains the repair "
        "fixes/C16_page-cache-capacity-after-disk-read.diff (source test PC_REPAIRED); 'written back' is the model's "
        "notion: the write latency was waited for and _dirty_writebacks counted in the step that drops/cleans the page",
    ],
}

# ---- bounded stand-in (labelled bounded, never counted as proved): ClockEviction uses positional list access
# (self._keys[self._hand], pop(hand)) which neither z3 sequences nor the rank model of pyvc/omap.py can carry
def _bounded_clock(seed, tier):
    """every sequence of interface calls of length <= N over 3 keys, against the set model: the four interface
    clauses, hand index safety, set(keys) == dom(ref_bits), no exception"""
    import copy
    n_max = 6 if tier == "thorough" else 5
    keys = ["a", "b", "c"]
    ops = [("ins", k) for k in keys] + [("acc", k) for k in keys] + [("rem", k) for k in keys] + [("evict", None)]
    viol, count = [], [0]

    def check(p, model, trace):
        ok = (set(p._keys) == set(p._ref_bits) == model and len(p._keys) == len(set(p._keys))
              and p._hand >= 0 and (p._hand < len(p._keys) or not p._keys))
        if not ok and len(viol) < 5:
            viol.append({"case": "state", "trace": list(trace), "keys": list(p._keys), "hand": p._hand, "model": sorted(model)})
        return ok

    def rec(p, model, trace):
        if len(trace) >= n_max:
            return
        for op, k in ops:
            if op == "ins" and k in model:
                continue            # on_insert is only required for untracked keys
            q, m = copy.deepcopy(p), set(model)
            count[0] += 1
            try:
                if op == "ins":
                    q.on_insert(k); m.add(k)
                elif op == "acc":
                    q.on_access(k)
                elif op == "rem":
                    q.on_remove(k); m.discard(k)
                else:
                    v = q.evict()
                    if (v is None) != (not m) or (v is not None and v not in m):
                        if len(viol) < 5:
                            viol.append({"case": "evict", "trace": trace + [(op, k)], "victim": v, "model": sorted(m)})
                        continue
                    m.discard(v)
            except Exception as e:      # noqa: BLE001
                if len(viol) < 5:
                    viol.append({"case": "exception", "trace": trace + [(op, k)], "exc": repr(e)})
                continue
            if check(q, m, trace + [(op, k)]):
                rec(q, m, trace + [(op, k)])
    rec(ClockEviction(), set(), [])
    return {"evaluations": count[0], "violations": viol}


PROPERTY["bounded"] = [{"name": "clock-eviction-vs-set-model",
                        "bound": "all interface call sequences of length <= 5 (thorough: 6) over 3 keys",
                        "fn": _bounded_clock}]

# ============================================================================ A. the eviction policies
# view: tracked(policy) = the set of keys the policy holds.  The same four clauses for every policy
# (they are the interface contract of part B):
#   on_insert(k): tracked' = tracked + {k}     on_remove(k): tracked' = tracked - {k}
#   on_access(k): tracked' = tracked           evict(): None <=> tracked == {} ; else k in tracked, removed exactly
#   clear(): tracked' = {}
# plus the policy's own victim clause.  OrderedDicts and lists-of-distinct-keys are modelled by pyvc/omap.py.
import random as _random  # noqa: E402
from pyvc.omap import OMap, OSeq  # noqa: E402

ODICT = OMap(Str, Any)          # OrderedDict[str, None]
OLIST = OSeq(Str)               # list[str] holding distinct keys


def odom(x):
    return x._ty.dt.dom(x.term)


def opos(x, k):
    return z3.Select(x._ty.dt.pos(x.term), kt(k))


def s_or(a, b):
    return z3.SetUnion(a, b)


def disjoint(a, b):
    return mk_bool(z3.SetIntersect(a, b) == EMPTY_S)


def policy_set_clauses(K, tracked, insert_needs_untracked=False, access=(), insert=(), evict=(), extra_uses=()):
    """the interface clauses, instantiated for policy class K with its view function `tracked`"""
    fn(K, "on_access", args={"key": Str}, uses=list(extra_uses), ensures=[
        ("tracked-unchanged", lambda s: dom_eq(tracked(s.self), tracked(s.old(s.self))))] + list(access))
    fn(K, "on_insert", args={"key": Str}, uses=list(extra_uses),
       requires=[("key-not-tracked", lambda s: Not(mk_bool(z3.Select(tracked(s.self), kt(s.key)))))] if insert_needs_untracked else [],
       ensures=[("tracked-gains-exactly-key", lambda s: dom_eq(tracked(s.self), with_(tracked(s.old(s.self)), s.key)))]
       + list(insert))
    fn(K, "on_remove", args={"key": Str}, uses=list(extra_uses), ensures=[
        ("tracked-loses-exactly-key", lambda s: dom_eq(tracked(s.self), without(tracked(s.old(s.self)), s.key)))])
    fn(K, "evict", uses=list(extra_uses), ensures=[
        ("none-iff-nothing-tracked", lambda s: iff(s.result is None, dom_eq(tracked(s.old(s.self)), EMPTY_S))),
        ("victim-was-tracked-and-only-it-is-removed", lambda s: dom_eq(tracked(s.self), tracked(s.old(s.self)))
            if s.result is None else (mk_bool(z3.Select(tracked(s.old(s.self)), kt(s.result)))
                                      & dom_eq(tracked(s.self), without(tracked(s.old(s.self)), s.result))))]
        + list(evict))
    fn(K, "clear", uses=list(extra_uses), ensures=[("nothing-tracked", lambda s: dom_eq(tracked(s.self), EMPTY_S))])


def _is_oldest(field):
    """victim clause: the evicted key had the least position stamp in `field` (least recently
    inserted / moved to the end)"""
    return lambda s: True if s.result is None else forall(Str, lambda j: implies(
        mk_bool(z3.Select(odom(getattr(s.old(s.self), field)), kt(j))),
        mk_bool(opos(getattr(s.old(s.self), field), s.result) <= opos(getattr(s.old(s.self), field), j))))


# ---- LRU: OrderedDict, most recently used at the end
cls(LRUEviction, fields={"_order": ODICT})
policy_set_clauses(LRUEviction, lambda o: odom(o._order),
    access=[("accessed-key-becomes-most-recent", lambda s: forall(Str, lambda j: implies(
        has_o(s.self._order, s.key) & has_o(s.self._order, j) & mk_bool(kt(j) != kt(s.key)),
        mk_bool(opos(s.self._order, j) < opos(s.self._order, s.key))))),
        ("relative-order-of-others-kept", lambda s: forall(Str, lambda j: implies(
            mk_bool(kt(j) != kt(s.key)), mk_bool(opos(s.self._order, j) == opos(s.old(s.self)._order, j)))))],
    insert=[("new-key-is-most-recent", lambda s: implies(Not(has_o(s.old(s.self)._order, s.key)), forall(Str, lambda j: implies(
        has_o(s.old(s.self)._order, j), mk_bool(opos(s.self._order, j) < opos(s.self._order, s.key))))))],
    evict=[("victim-is-least-recently-used", _is_oldest("_order"))])


def has_o(x, k):
    return mk_bool(z3.Select(odom(x), kt(k)))


# ---- FIFO: list of distinct keys, oldest insert first
cls(FIFOEviction, fields={"_order": OLIST})
policy_set_clauses(FIFOEviction, lambda o: odom(o._order),
    access=[("order-untouched", lambda s: unchanged(s, s.self))],
    evict=[("victim-is-oldest-insert", _is_oldest("_order"))])

# ---- LFU: per-key counters, victim = a key with the minimal count
CNT = Map(Str, Int)
cls(LFUEviction, fields={"_counts": CNT, "_min_count": Int},
    inv=[("counts-positive", lambda o: forall(Str, lambda k: implies(has(o._counts, k), o._counts.get(k, 1) >= 1)))])
policy_set_clauses(LFUEviction, lambda o: sdom(o._counts),
    access=[("hit-counts-once", lambda s: forall(Str, lambda j: s.self._counts.get(j, 0)
        == s.old(s.self)._counts.get(j, 0) + ite(mk_bool(kt(j) == kt(s.key)) & has(s.old(s.self)._counts, j), 1, 0)))],
    insert=[("new-key-counts-one", lambda s: s.self._counts.get(s.key, 0) == 1),
            ("other-counts-kept", lambda s: forall(Str, lambda j: implies(
                mk_bool(kt(j) != kt(s.key)), s.self._counts.get(j, 0) == s.old(s.self)._counts.get(j, 0))))],
    evict=[("victim-has-minimal-count", lambda s: True if s.result is None else forall(Str, lambda j: implies(
        has(s.old(s.self)._counts, j), s.old(s.self)._counts.get(s.result, 0) <= s.old(s.self)._counts.get(j, 0)))),
           ("other-counts-kept", lambda s: True if s.result is None else forall(Str, lambda j: implies(
               mk_bool(kt(j) != kt(s.result)), s.self._counts.get(j, 0) == s.old(s.self)._counts.get(j, 0))))])

# ---- Random: set of keys, victim = arbitrary element (trusted random.Random.choice)
cls(_random.Random, fields={}).alloc = False
stub_of(_random.Random, "choice", returns=Str, modifies=[], ensures=[lambda s: contains(s.seq, s.result)])
stub_of(_random.Random, "sample", returns=Seq(Str), modifies=[], ensures=[
    lambda s: slen(s.result) == s.k,
    lambda s: forall(Int, lambda i: implies((i >= 0) & (i < slen(s.result)), contains_at(s.population, s.result, i)))])
RNG = [(_random.Random, "choice"), (_random.Random, "sample")]


def contains_at(population, seq, i):
    """population contains seq[i] (raw: no fork)"""
    e = seq.term[i.t]
    return mk_bool(population.__sym_contains__(SymStrOf(e)))


def SymStrOf(t):
    return Str.wrap(t)


cls(RandomEviction, fields={"_keys": SSET, "_rng": Ref(_random.Random)}, const=["_rng"])
policy_set_clauses(RandomEviction, lambda o: sdom(o._keys), extra_uses=RNG)

# ---- TTL: insert times; victim = an expired key if there is one (the "else oldest" choice is over-approximated
# by an arbitrary tracked key: only the set clauses are claimed for it).  The clock is an arbitrary callable.
cls(TTLEviction, fields={"_ttl": Real, "_clock_func": Fn(Real, "clock"), "_insert_times": Map(Str, Real)},
    const=["_ttl", "_clock_func"], inv=[("ttl-positive", lambda o: o._ttl > 0)])
policy_set_clauses(TTLEviction, lambda o: sdom(o._insert_times),
    access=[("insert-times-untouched", lambda s: unchanged(s, s.self))])

# ---- Sampled LRU: victim = least recently used key of a random sample (trusted random.Random.sample; the choice
# inside the sample is over-approximated by an arbitrary member: only the set clauses are claimed)
cls(SampledLRUEviction, fields={"_sample_size": Int, "_rng": Ref(_random.Random), "_access_times": CNT, "_clock": Int},
    const=["_rng", "_sample_size"], inv=[("sample-size-positive", lambda o: o._sample_size >= 1)])
policy_set_clauses(SampledLRUEviction, lambda o: sdom(o._access_times), extra_uses=RNG,
    access=[("logical-clock-never-goes-back", lambda s: s.self._clock >= s.old(s.self)._clock),
            ("hit-gets-the-newest-stamp", lambda s: implies(has(s.old(s.self)._access_times, s.key),
                s.self._access_times.get(s.key, 0) == s.self._clock))],
    insert=[("new-key-gets-the-newest-stamp", lambda s: (s.self._access_times.get(s.key, 0) == s.self._clock)
             & (s.self._clock == s.old(s.self)._clock + 1))])

# ---- SLRU: probationary + protected segments
cls(SLRUEviction, fields={"_protected_ratio": Real, "_probationary": ODICT, "_protected": ODICT},
    inv=[("segments-disjoint", lambda o: disjoint(odom(o._probationary), odom(o._protected)))])
policy_set_clauses(SLRUEviction, lambda o: s_or(odom(o._probationary), odom(o._protected)), insert_needs_untracked=True,
    access=[("hit-promotes-to-protected", lambda s: implies(
        mk_bool(z3.Select(s_or(odom(s.old(s.self)._probationary), odom(s.old(s.self)._protected)), kt(s.key))),
        has_o(s.self._protected, s.key)))],
    insert=[("new-key-starts-probationary", lambda s: has_o(s.self._probationary, s.key))],
    evict=[("probationary-evicted-first", lambda s: True if s.result is None else implies(
        Not(dom_eq(odom(s.old(s.self)._probationary), EMPTY_S)), has_o(s.old(s.self)._probationary, s.result)))])

# ---- 2Q: A1in (FIFO of first-time keys), A1out (ghost list of evicted keys), Am (LRU of re-referenced keys)
cls(TwoQueueEviction, fields={"_kin_ratio": Real, "_a1in": OLIST, "_a1out": OLIST, "_am": ODICT, "_a1out_max": Int},
    const=["_a1out_max", "_kin_ratio"],
    inv=[("a1in-am-disjoint", lambda o: disjoint(odom(o._a1in), odom(o._am))),
         ("a1in-a1out-disjoint", lambda o: disjoint(odom(o._a1in), odom(o._a1out))),
         ("am-a1out-disjoint", lambda o: disjoint(odom(o._am), odom(o._a1out))),
         ("ghost-list-bounded", lambda o: (o._a1out_max >= 1) & (slen(o._a1out) <= o._a1out_max))])
policy_set_clauses(TwoQueueEviction, lambda o: s_or(odom(o._a1in), odom(o._am)), insert_needs_untracked=True,
    insert=[("remembered-key-goes-to-main-queue", lambda s: ite_b(
        has_o(s.old(s.self)._a1out, s.key), has_o(s.self._am, s.key), has_o(s.self._a1in, s.key)))],
    evict=[("a1in-evicted-first", lambda s: True if s.result is None else implies(
        Not(dom_eq(odom(s.old(s.self)._a1in), EMPTY_S)),
        has_o(s.old(s.self)._a1in, s.result) & has_o(s.self._a1out, s.result)))])


def ite_b(c, a, b):
    return implies(c, a) & implies(Not(c), b)


# ============================================================================ B. policy interface
cls(CacheEvictionPolicy, ghost={"g_tracked": SSET})


def tr(o):
    return sdom(o.g_tracked)


stub_of(CacheEvictionPolicy, "on_access", modifies=[], ensures=[])
stub_of(CacheEvictionPolicy, "on_insert", modifies=["g_tracked"],
        requires=[("key-not-tracked", lambda s: Not(has(s.self.g_tracked, s.key)))],
        ensures=[lambda s: dom_eq(tr(s.self), with_(tr(s.old(s.self)), s.key))])
stub_of(CacheEvictionPolicy, "on_remove", modifies=["g_tracked"],
        ensures=[lambda s: dom_eq(tr(s.self), without(tr(s.old(s.self)), s.key))])
stub_of(CacheEvictionPolicy, "evict", returns=Opt(Str), modifies=["g_tracked"], ensures=[
    lambda s: dom_eq(tr(s.old(s.self)), EMPTY_S) if s.result is None else
    (has(s.old(s.self).g_tracked, s.result) & dom_eq(tr(s.self), without(tr(s.old(s.self)), s.result))),
    lambda s: implies(s.result is None, dom_eq(tr(s.self), tr(s.old(s.self))))])
stub_of(CacheEvictionPolicy, "clear", modifies=["g_tracked"], ensures=[lambda s: dom_eq(tr(s.self), EMPTY_S)])
POLICY_IFACE = [(CacheEvictionPolicy, n) for n in ("on_access", "on_insert", "on_remove", "evict", "clear")]

# ============================================================================ B. CachedStore
cls(KVStore, fields={"_read_latency": Real, "_write_latency": Real, "_delete_latency": Real, "_capacity": Opt(Int),
                     "_data": CMAP, "_insertion_order": Seq(Str), "_reads": Int, "_writes": Int, "_deletes": Int,
                     "_hits": Int, "_misses": Int, "_evictions": Int},
    const=["_read_latency", "_write_latency", "_delete_latency", "_capacity"],
    inv=[("latencies-nonneg", lambda o: (o._read_latency >= 0) & (o._write_latency >= 0) & (o._delete_latency >= 0))])

cls(CachedStore, fields={"_backing_store": Ref(KVStore), "_cache_capacity": Int,
                         "_eviction_policy": Ref(CacheEvictionPolicy), "_cache_read_latency": Real,
                         "_write_through": Bool, "_cache": CMAP, "_dirty_keys": SSET,
                         "_reads": Int, "_writes": Int, "_hits": Int, "_misses": Int, "_evictions": Int,
                         "_writebacks": Int},
    ghost={"g_writes": Map(Str, Int)},
    const=["_backing_store", "_cache_capacity", "_eviction_policy", "_cache_read_latency", "_write_through"],
    inv=[("capacity-positive", lambda o: o._cache_capacity >= 1),
         ("never-above-capacity", lambda o: slen(o._cache) <= o._cache_capacity),
         ("tracked-is-keys", _cs_inv_dom),
         ("dirty-subset-of-cached", lambda o: mk_bool(z3.IsSubset(sdom(o._dirty_keys), sdom(o._cache)))),
         ("write-through-has-no-dirty", lambda o: implies(o._write_through, mk_bool(sdom(o._dirty_keys) == EMPTY_S))),
         ("read-latency-nonneg", lambda o: o._cache_read_latency >= 0)],
    # rely/guarantee about the ghost write tickets (both are closed under composition of steps):
    guarantee=[
        ("write-tickets-only-grow", lambda old, new: forall(Str, lambda k:
            new.g_writes.get(k, 0) >= old.g_writes.get(k, 0))),
        ("entry-becomes-dirty-only-by-a-new-write", lambda old, new: forall(Str, lambda k: implies(
            Not(has(old._dirty_keys, k)) & has(new._dirty_keys, k),
            new.g_writes.get(k, 0) > old.g_writes.get(k, 0)))),
    ])


def _clean_check(self, key):
    """ghost assertion (flush): a key is marked clean only when the backing store holds the cached value"""
    b = self._backing_store
    oblige("flush/marked-clean-only-when-the-cached-value-is-durable", implies(
        has(self._dirty_keys, key) & has(self._cache, key),
        has(b._data, key) & mk_bool(mval(b._data, key) == mval(self._cache, key))), kind="post")


import happysimulator.components.datastore.cached_store as _cs_mod  # noqa: E402
_cs_mod._c16_clean_check = _clean_check

# ---- KVStore generator API (kv_store.py is not an anchored file): wait the latency, then one atomic effect.
# The one-yield stub lets the environment run during the latency; the effect applies to the resumed state.
def _data_is(s, dom, val=None):
    d0, d1 = s.old(s.self)._data, s.self._data
    return mk_bool(sdom(d1) == dom) & mk_bool(d1._ty.dt.val(d1.term) == (val if val is not None else d0._ty.dt.val(d0.term)))


KV_GET = stub_of(KVStore, "get", returns=Opt(Any), modifies=["_reads", "_hits", "_misses"], ensures=[
    lambda s: Not(has(s.self._data, s.key)) if s.result is None else
    (has(s.self._data, s.key) & mk_bool(s.result.t == mval(s.self._data, s.key)))])
KV_GET.stub_yield = lambda s: s.self._read_latency
KV_PUT = stub_of(KVStore, "put", modifies=["_data", "_insertion_order", "_writes"],
                 requires=[("backing-store-unbounded", lambda s: s.self._capacity is None)], ensures=[
    lambda s: _data_is(s, with_(sdom(s.old(s.self)._data), s.key),
                       z3.Store(s.old(s.self)._data._ty.dt.val(s.old(s.self)._data.term), kt(s.key), s.value.t))])
KV_PUT.stub_yield = lambda s: s.self._write_latency
KV_PUT.returns_none_ok = True       # generator with no return value
KV_DELETE = stub_of(KVStore, "delete", returns=Bool, modifies=["_data", "_insertion_order", "_deletes"], ensures=[
    lambda s: iff(s.result, has(s.old(s.self)._data, s.key)),
    lambda s: _data_is(s, without(sdom(s.old(s.self)._data), s.key))])
KV_DELETE.stub_yield = lambda s: s.self._delete_latency
KV_API = [(KVStore, "get"), (KVStore, "put"), (KVStore, "delete")]

CS_FOCUS = lambda s: [s.self._eviction_policy, s.self._backing_store]  # noqa: E731
UNBOUNDED_BACKING =("backing-store-unbounded", lambda s: s.self._backing_store._capacity is None)


def _others_same(s, k):
    """every entry other than k is exactly as before"""
    return forall(Str, lambda j: implies(mk_bool(kt(j) != kt(k)) & has(s.self._cache, j),
                                         has(s.old(s.self)._cache, j)
                                         & mk_bool(mval(s.self._cache, j) == mval(s.old(s.self)._cache, j))))


def _backing_frame(s):
    """the backing store only ever receives written-back dirty values and loses nothing"""
    old_self, new_self = s.old(s.self), s.self
    ob, nb = s.old(s.self._backing_store), s.self._backing_store     # (old() does not propagate through a field read)
    return forall(Str, lambda k: implies(has(ob._data, k), has(nb._data, k)) & implies(
        has(nb._data, k) & (Not(has(ob._data, k)) | mk_bool(mval(nb._data, k) != mval(ob._data, k))),
        has(old_self._dirty_keys, k) & mk_bool(mval(nb._data, k) == mval(old_self._cache, k))))


# the class invariants, restated as pre/postconditions so that callers can use the contract modularly
CS_INV_CLAUSES = [
    ("inv-capacity-positive", lambda s: s.self._cache_capacity >= 1),
    ("inv-never-above-capacity", lambda s: slen(s.self._cache) <= s.self._cache_capacity),
    ("inv-tracked-is-keys", lambda s: _cs_inv_dom(s.self)),
    ("inv-dirty-subset-of-cached", lambda s: mk_bool(z3.IsSubset(sdom(s.self._dirty_keys), sdom(s.self._cache)))),
    ("inv-write-through-has-no-dirty", lambda s: implies(s.self._write_through, mk_bool(sdom(s.self._dirty_keys) == EMPTY_S))),
]
CACHE_PUT_MODIFIES = ["_cache", "_dirty_keys", "_evictions", "_writebacks",
                      (lambda s: s.self._eviction_policy, "g_tracked"),
                      (lambda s: s.self._backing_store, "_data"),
                      (lambda s: s.self._backing_store, "_insertion_order")]

fn(CachedStore, "_cache_put", args={"key": Str, "value": Any}, uses=POLICY_IFACE, focus=CS_FOCUS,
   modifies=CACHE_PUT_MODIFIES,
   requires=[UNBOUNDED_BACKING] + CS_INV_CLAUSES, ensures=CS_INV_CLAUSES + [
    ("backing-store-only-receives-dirty-values", lambda s: _backing_frame(s)),
    ("dirty-set-only-shrinks", lambda s: mk_bool(z3.IsSubset(sdom(s.self._dirty_keys), sdom(s.old(s.self)._dirty_keys)))),
    ("cached-dirty-stays-dirty", lambda s: forall(Str, lambda k: implies(
        has(s.old(s.self)._dirty_keys, k) & has(s.self._cache, k), has(s.self._dirty_keys, k)))),
    ("entry-holds-value", lambda s: has(s.self._cache, s.key) & mk_bool(mval(s.self._cache, s.key) == s.value.t)),
    ("other-entries-kept-or-evicted", lambda s: _others_same(s, s.key)),
    ("eviction-only-when-full", lambda s: implies(
        has(s.old(s.self)._cache, s.key) | (slen(s.old(s.self)._cache) < s.self._cache_capacity),
        mk_bool(sdom(s.self._cache) == with_(sdom(s.old(s.self)._cache), s.key)))),
    # write-back safety: an entry whose write has not reached the backing store is never dropped
    ("dirty-only-leaves-written", lambda s: _written_back(s.old(s.self), s.self)),
])

fn(CachedStore, "_cache_remove", args={"key": Str}, uses=POLICY_IFACE, focus=CS_FOCUS,
   modifies=["_cache", "_dirty_keys", (lambda s: s.self._eviction_policy, "g_tracked")],
   requires=CS_INV_CLAUSES, ensures=CS_INV_CLAUSES + [
    ("key-gone", lambda s: Not(has(s.self._cache, s.key))),
    ("only-key-removed", lambda s: mk_bool(sdom(s.self._cache) == without(sdom(s.old(s.self)._cache), s.key))),
    ("only-key-leaves-dirty", lambda s: mk_bool(sdom(s.self._dirty_keys) == without(sdom(s.old(s.self)._dirty_keys), s.key))),
    ("others-same", lambda s: _others_same(s, s.key)),
])
CS_HELPERS = [(CachedStore, "_cache_put"), (CachedStore, "_cache_remove")]


# ---- generators: one atomic segment per stretch between yields; at every yield the class invariants are
# obligations, then everything another process may write is havoc'd (any interleaving).
def _wb_at_yield(s, y):
    return _written_back(s.pre(s.self), s.self)


def _wb_at_exit(s):
    return _written_back(s.pre(s.self), s.self)


def _no_later_write(s):
    """no other put/delete of this key started after this one (ghost ticket unchanged since entry)"""
    return s.self.g_writes.get(s.key, 0) == s.old(s.self).g_writes.get(s.key, 0) + 1


CS_YIELDS = dict(stable=[("Entity", "_clock")])


def _get_result(s):
    """value returned by get: the cached value at issue time on a hit, else what the backing store holds when
    the fetch completes"""
    if s.old(s.self)._cache.__contains__(s.key):
        return (s.result is not None) and mk_bool(s.result.t == mval(s.old(s.self)._cache, s.key))
    b = s.pre(s.self._backing_store)
    if b._data.__contains__(s.key):
        return (s.result is not None) and mk_bool(s.result.t == mval(b._data, s.key))
    return s.result is None


def _entries_kept(s, except_key=None):
    """no entry that exists at the start of the final segment is overwritten (it may be evicted)"""
    pre = s.pre(s.self)
    return forall(Str, lambda j: implies(
        has(pre._cache, j) & has(s.self._cache, j) & (True if except_key is None else mk_bool(kt(j) != kt(except_key))),
        mk_bool(mval(s.self._cache, j) == mval(pre._cache, j))))


fn(CachedStore, "get", args={"key": Str}, uses=POLICY_IFACE + CS_HELPERS + KV_API, focus=CS_FOCUS, requires=[UNBOUNDED_BACKING],
   yields=Yields(at_yield=[("delay-nonnegative", lambda s, y: y >= 0),
                           ("dirty-only-leaves-written", _wb_at_yield)], **CS_YIELDS),
   ensures=[
    ("returns-cached-or-current-backing-value", _get_result),
    # a read never replaces an entry: whatever a concurrent write put there while the fetch was in flight is newer
    ("fill-never-overwrites-an-entry", lambda s: _entries_kept(s)),
    ("fill-is-the-current-backing-value", lambda s: True if s.result is None else implies(
        has(s.self._cache, s.key) & Not(has(s.pre(s.self)._cache, s.key)),
        mk_bool(mval(s.self._cache, s.key) == mval(s.self._backing_store._data, s.key)))),
    ("dirty-only-leaves-written", _wb_at_exit),
])


def _entry_is(s, o=None):
    return has(s.self._cache, s.key) & mk_bool(mval(s.self._cache, s.key) == s.value.t)


fn(CachedStore, "put", args={"key": Str, "value": Any}, uses=POLICY_IFACE + CS_HELPERS + KV_API, focus=CS_FOCUS,
   requires=[UNBOUNDED_BACKING],
   yields=Yields(at_yield=[
       ("delay-nonnegative", lambda s, y: y >= 0),
       # the write is visible to reads on this cache from the moment put() is called ...
       ("written-value-cached-at-once", lambda s, y: _entry_is(s)),
       # ... and in write-back mode it is marked as not yet durable
       ("write-back-marks-dirty", lambda s, y: implies(Not(s.self._write_through), has(s.self._dirty_keys, s.key))),
       ("dirty-only-leaves-written", _wb_at_yield)], **CS_YIELDS),
   ensures=[
    ("write-through-makes-durable", lambda s: implies(
        s.self._write_through, has(s.self._backing_store._data, s.key)
        & mk_bool(mval(s.self._backing_store._data, s.key) == s.value.t))),
    # read-after-write: once the write has completed the cache must not hold anything else for the key
    # (a miss fill that raced with the write may have put the old value there) unless a later write started
    ("completed-write-not-shadowed-by-stale-entry", lambda s: implies(
        s.self._write_through & _no_later_write(s) & has(s.self._cache, s.key),
        mk_bool(mval(s.self._cache, s.key) == s.value.t))),
    ("dirty-only-leaves-written", _wb_at_exit),
])

fn(CachedStore, "delete", args={"key": Str}, uses=POLICY_IFACE + CS_HELPERS + KV_API, focus=CS_FOCUS,
   requires=[UNBOUNDED_BACKING],
   yields=Yields(at_yield=[
       ("delay-nonnegative", lambda s, y: y >= 0),
       ("removed-from-cache-at-once", lambda s, y: Not(has(s.self._cache, s.key))),
       ("dirty-only-leaves-written-or-deleted", lambda s, y: _written_back(s.pre(s.self), s.self, s.key))], **CS_YIELDS),
   ensures=[
    ("deleted-from-backing-store", lambda s: Not(has(s.self._backing_store._data, s.key))),
    # a miss fill that raced with the delete must not leave the deleted value cached
    ("completed-delete-not-shadowed-by-stale-entry", lambda s: implies(
        _no_later_write(s), Not(has(s.self._cache, s.key)))),
    ("result-says-whether-it-existed", lambda s: iff(
        s.result, has(s.old(s.self)._cache, s.key) | has(s.pre(s.self._backing_store)._data, s.key))),
    # after the latency an entry of the key that is dirty belongs to a LATER write-back put: it must survive
    ("later-dirty-entry-survives-the-delete", lambda s: _written_back(s.pre(s.self), s.self)),
])

# invalidation drops cache entries only; in write-back mode a dirty entry is the only copy of a write, so it
# has to reach the backing store before it is dropped ("write-back data is never discarded ...")
fn(CachedStore, "invalidate", args={"key": Str}, uses=POLICY_IFACE + CS_HELPERS, focus=CS_FOCUS,
   modifies=CACHE_PUT_MODIFIES,
   requires=[UNBOUNDED_BACKING] + CS_INV_CLAUSES, ensures=CS_INV_CLAUSES + [
    ("key-gone", lambda s: Not(has(s.self._cache, s.key))),
    ("only-key-removed", lambda s: mk_bool(sdom(s.self._cache) == without(sdom(s.old(s.self)._cache), s.key))),
    ("only-key-leaves-dirty", lambda s: mk_bool(sdom(s.self._dirty_keys) == without(sdom(s.old(s.self)._dirty_keys), s.key))),
    ("others-same", lambda s: _others_same(s, s.key)),
    ("dirty-only-leaves-written", lambda s: _written_back(s.old(s.self), s.self)),
    ("backing-store-only-receives-dirty-values", _backing_frame),
])

fn(CachedStore, "invalidate_all", uses=POLICY_IFACE + CS_HELPERS, focus=CS_FOCUS,
   modifies=CACHE_PUT_MODIFIES,
   requires=[UNBOUNDED_BACKING] + CS_INV_CLAUSES, ensures=CS_INV_CLAUSES + [
    ("cache-empty", lambda s: mk_bool(sdom(s.self._cache) == EMPTY_S) & (slen(s.self._cache) == 0)),
    ("nothing-dirty", lambda s: mk_bool(sdom(s.self._dirty_keys) == EMPTY_S)),
    ("dirty-only-leaves-written", lambda s: _written_back(s.old(s.self), s.self)),
    ("backing-store-only-receives-dirty-values", _backing_frame),
])

# flush: the write-back clause is the ghost assertion `flush/marked-clean-only-when-...` inside the loop body
# (the body yields while the value travels to the backing store; a put() may rewrite the entry meanwhile)
# Independently of that anchor (robust against a rewrite of the loop body): the two-state write-back clause over every
# uninterrupted stretch of flush's own steps - entry to the loop, loop head to the yield, resume to the loop head / exit
# (`since` = state at the latest of entry / resume / loop head): a key leaves the dirty set only with its cached value
# in the backing store.
fn(CachedStore, "flush", uses=POLICY_IFACE + CS_HELPERS + KV_API, focus=CS_FOCUS, requires=[UNBOUNDED_BACKING],
   yields=Yields(at_yield=[("delay-nonnegative", lambda s, y: y >= 0),
                           ("dirty-only-leaves-written", lambda s, y: _written_back(s.since(s.self), s.self))], **CS_YIELDS),
   ensures=[("returns-a-count", lambda s: s.result >= 0),
            ("dirty-only-leaves-written", lambda s: _written_back(s.since(s.self), s.self))])

# ============================================================================ C. SoftTTLCache
from happysimulator.components.datastore.soft_ttl_cache import SoftTTLCache, CacheEntry  # noqa: E402
import happysimulator.components.datastore.soft_ttl_cache as _st_mod  # noqa: E402

ENTRY = valueclass("CacheEntry", [CacheEntry], [("value", Any), ("cached_at", TIME)])
EMAP = Map(Str, ENTRY)


def e_at(d, k):
    """cached_at (ns) of the entry d[k] (raw term)"""
    return TIME.dt.nanoseconds(ENTRY.dt.cached_at(mval(d, k)))


def e_val(d, k):
    return ENTRY.dt.value(mval(d, k))


fn(CacheEntry, "is_fresh", self_ty=ENTRY, args={"now": TIME, "soft_ttl": DURATION}, inv=False, ensures=[
    ("fresh-iff-younger-than-soft-ttl", lambda s: iff(s.result, ns(s.now) - ns(s.self.cached_at) < ns(s.soft_ttl)))])
fn(CacheEntry, "is_valid", self_ty=ENTRY, args={"now": TIME, "hard_ttl": DURATION}, inv=False, ensures=[
    ("valid-iff-younger-than-hard-ttl", lambda s: iff(s.result, ns(s.now) - ns(s.self.cached_at) < ns(s.hard_ttl)))])


def _st_cap_ok(o):
    c = o._cache_capacity
    if c is None:
        return True
    return (c >= 1) & (slen(o._cache) <= c)


cls(SoftTTLCache, fields={"_soft_ttl": DURATION, "_hard_ttl": DURATION, "_backing_store": Ref(KVStore),
                          "_cache_capacity": Opt(Int), "_cache_read_latency": Real, "_cache": EMAP,
                          "_refreshing_keys": SSET, "_access_order": OLIST, "_reads": Int, "_fresh_hits": Int,
                          "_stale_hits": Int, "_hard_misses": Int, "_background_refreshes": Int,
                          "_refresh_successes": Int, "_coalesced_requests": Int, "_evictions": Int},
    const=["_soft_ttl", "_hard_ttl", "_backing_store", "_cache_capacity", "_cache_read_latency"],
    inv=[("ttl-shape", lambda o: (ns(o._soft_ttl) >= 0) & (ns(o._soft_ttl) <= ns(o._hard_ttl))),
         ("never-above-capacity", _st_cap_ok),
         ("lru-order-tracks-exactly-the-cached-keys", _st_order_is_keys),
         ("read-latency-nonneg", lambda o: o._cache_read_latency >= 0)])


def _served_check(self, key):
    """ghost assertion: an entry handed to the caller is younger than the hard TTL at that moment"""
    oblige("get/served-entry-is-within-hard-ttl",
           mk_bool(num(now_ns(self)) - e_at(self._cache, key) < num(ns(self._hard_ttl))), kind="post")


_st_mod._c16_served_check = _served_check
ST_FOCUS = lambda s: [s.self._backing_store]  # noqa: E731
ST_UNBOUNDED = ("backing-store-unbounded", lambda s: s.self._backing_store._capacity is None)


def _st_others_same(s, k):
    return forall(Str, lambda j: implies(mk_bool(kt(j) != kt(k)) & has(s.self._cache, j),
                                         has(s.old(s.self)._cache, j)
                                         & mk_bool(mval(s.self._cache, j) == mval(s.old(s.self)._cache, j))))


fn(SoftTTLCache, "_touch_for_lru", args={"key": Str}, ensures=[
    ("cached-set-unchanged", lambda s: unchanged(s, s.self, "_cache")
        & mk_bool(odom(s.self._access_order) == odom(s.old(s.self)._access_order))),
    ("touched-key-becomes-most-recent", lambda s: forall(Str, lambda j: implies(
        has_o(s.self._access_order, s.key) & has_o(s.self._access_order, j) & mk_bool(kt(j) != kt(s.key)),
        mk_bool(opos(s.self._access_order, j) < opos(s.self._access_order, s.key)))))])

fn(SoftTTLCache, "_evict_lru", ensures=[
    ("evicts-one-entry-when-nonempty", lambda s: implies(slen(s.old(s.self)._cache) > 0,
        slen(s.self._cache) == slen(s.old(s.self)._cache) - 1)),
    ("only-removes", lambda s: mk_bool(z3.IsSubset(sdom(s.self._cache), sdom(s.old(s.self)._cache)))),
    ("kept-entries-unchanged", lambda s: forall(Str, lambda k: implies(
        has(s.self._cache, k), mk_bool(mval(s.self._cache, k) == mval(s.old(s.self)._cache, k))))),
    ("victim-is-least-recently-used", lambda s: forall(Str, lambda v: forall(Str, lambda j: implies(
        has(s.old(s.self)._cache, v) & Not(has(s.self._cache, v)) & has(s.old(s.self)._cache, j),
        mk_bool(opos(s.old(s.self)._access_order, v) <= opos(s.old(s.self)._access_order, j))))))])

ST_INV_CLAUSES = [("inv-never-above-capacity", lambda s: _st_cap_ok(s.self)),
                  ("inv-lru-order-tracks-exactly-the-cached-keys", lambda s: _st_order_is_keys(s.self))]
ST_STORE = [(SoftTTLCache, "_store")]

fn(SoftTTLCache, "_store", args={"key": Str, "value": Any}, modifies=["_cache", "_access_order", "_evictions"],
   requires=ST_INV_CLAUSES, ensures=ST_INV_CLAUSES + [
    ("entry-holds-value-stamped-now", lambda s: has(s.self._cache, s.key)
        & mk_bool(e_val(s.self._cache, s.key) == s.value.t)
        & mk_bool(e_at(s.self._cache, s.key) == num(now_ns(s.self)))),
    ("other-entries-kept-or-evicted", lambda s: _st_others_same(s, s.key)),
    ("eviction-only-when-full", lambda s: True if s.self._cache_capacity is None else implies(
        has(s.old(s.self)._cache, s.key) | (slen(s.old(s.self)._cache) < s.self._cache_capacity),
        mk_bool(sdom(s.self._cache) == with_(sdom(s.old(s.self)._cache), s.key)))),
    ("unbounded-never-evicts", lambda s: True if s.self._cache_capacity is not None else
        mk_bool(sdom(s.self._cache) == with_(sdom(s.old(s.self)._cache), s.key))),
])

fn(SoftTTLCache, "invalidate", args={"key": Str}, ensures=[
    ("key-gone", lambda s: Not(has(s.self._cache, s.key))),
    ("only-key-removed", lambda s: mk_bool(sdom(s.self._cache) == without(sdom(s.old(s.self)._cache), s.key))),
    ("others-same", lambda s: _st_others_same(s, s.key))])

fn(SoftTTLCache, "invalidate_all", ensures=[
    ("cache-empty", lambda s: mk_bool(sdom(s.self._cache) == EMPTY_S) & (slen(s.self._cache) == 0)),
    ("no-refresh-tracked", lambda s: mk_bool(sdom(s.self._refreshing_keys) == EMPTY_S))])


def _refresh_event(s):
    r = s.result
    if r is None:
        return True
    if len(r) != 1:
        return False
    e = r[0]
    return same(e.target, s.self) & (e.event_type == "_sttl_refresh") & (ns(e.time) == now_ns(s.self))


fn(SoftTTLCache, "_maybe_start_refresh", args={"key": Str}, ensures=[
    ("at-most-one-refresh-in-flight-per-key", lambda s: iff(s.result is None, has(s.old(s.self)._refreshing_keys, s.key))),
    ("key-marked-refreshing", lambda s: mk_bool(sdom(s.self._refreshing_keys) == with_(sdom(s.old(s.self)._refreshing_keys), s.key))),
    ("one-refresh-event-for-this-cache-now", _refresh_event),
    ("cache-untouched", lambda s: unchanged(s, s.self, "_cache", "_access_order"))])


def _delay(y):
    return y[0] if isinstance(y, tuple) else y


def _st_get_result(s):
    """a hit (entry younger than the hard TTL when get() is called) returns the entry's value; otherwise, unless
    a refresh of the key is in flight, the value the backing store holds when the fetch completes"""
    o = s.old(s.self)
    hit = has(o._cache, s.key) & mk_bool(num(now_ns_old(s)) - e_at(o._cache, s.key) < num(ns(s.self._hard_ttl)))
    # coalesced with a refresh in flight: the ghost assertion speaks about what is served on that path
    fetch = Not(hit) & Not(has(o._refreshing_keys, s.key))
    b = s.pre(s.self._backing_store)
    if s.result is None:
        return Not(hit) & implies(fetch, Not(has(b._data, s.key)))
    return implies(hit, mk_bool(s.result.t == e_val(o._cache, s.key))) \
        & implies(fetch, has(b._data, s.key) & mk_bool(s.result.t == mval(b._data, s.key)))


def now_ns_old(s):
    return s.old(s.self._clock)._current_time.nanoseconds


fn(SoftTTLCache, "get", args={"key": Str}, uses=KV_API + ST_STORE, focus=ST_FOCUS, requires=[ST_UNBOUNDED],
   yields=Yields(at_yield=[("delay-nonnegative", lambda s, y: _delay(y) >= 0)],
                 stable=[("Entity", "_clock")],
                 rely=[lambda s, b, y: now_ns(s.self) >= b.pre(s.self._clock)._current_time.nanoseconds]),
   ensures=[
    # from the statement, on the returned value itself (no ghost anchor): whatever path produced the result, if it is
    # the value of the entry cached under the key at return time, that entry is younger than the hard TTL
    ("never-serves-an-entry-past-its-hard-ttl", lambda s: True if s.result is None else (
        # (A) the entry looked up at entry, valid at that instant (hits are served after the cache read latency)
        (has(s.old(s.self)._cache, s.key) & mk_bool(e_val(s.old(s.self)._cache, s.key) == s.result.t)
         & mk_bool(num(s.old(s.self._clock)._current_time.nanoseconds) - e_at(s.old(s.self)._cache, s.key)
                   < num(ns(s.self._hard_ttl))))
        # (B) the entry cached at return time, valid at that instant (looked up again after a wait)
        | (has(s.self._cache, s.key) & mk_bool(e_val(s.self._cache, s.key) == s.result.t)
           & mk_bool(num(now_ns(s.self)) - e_at(s.self._cache, s.key) < num(ns(s.self._hard_ttl))))
        # (C) not served from the cache at all: the value the backing store holds now
        | (has(s.self._backing_store._data, s.key) & mk_bool(mval(s.self._backing_store._data, s.key) == s.result.t)))),
    ("hit-or-current-backing-value", _st_get_result),
    ("fetched-value-is-cached-stamped-now", lambda s: True if s.result is None else implies(
        Not(has(s.pre(s.self)._cache, s.key)) & has(s.self._cache, s.key),
        mk_bool(e_at(s.self._cache, s.key) == num(now_ns(s.self))))),
])

fn(SoftTTLCache, "put", args={"key": Str, "value": Any}, uses=KV_API + ST_STORE, focus=ST_FOCUS, requires=[ST_UNBOUNDED],
   yields=Yields(at_yield=[("delay-nonnegative", lambda s, y: _delay(y) >= 0)], stable=[("Entity", "_clock")]),
   ensures=[
    ("written-through", lambda s: has(s.self._backing_store._data, s.key)
        & mk_bool(mval(s.self._backing_store._data, s.key) == s.value.t)),
    ("entry-holds-value-stamped-now", lambda s: has(s.self._cache, s.key)
        & mk_bool(e_val(s.self._cache, s.key) == s.value.t)
        & mk_bool(e_at(s.self._cache, s.key) == num(now_ns(s.self)))),
])

# ---- background refresh: handle_event('_sttl_refresh').  Event.context is a nested dict ({'metadata': {'key': k}})
# which the heap typing of specs/common.py does not model: the handler is run on a native stand-in event that
# carries a symbolic key (assumption listed).
class _RefreshEvent:
    def __init__(self, key):
        self.event_type = "_sttl_refresh"
        self.key = key
        self.context = {"metadata": {"key": key}}


def _st_refresh_installs(s):
    """what the refresh leaves under the key is the value the backing store holds NOW, stamped now: a value written
    (put: store write, then cache) while the refresh was waiting is therefore never replaced by an older one"""
    k = s.event.key
    b = s.self._backing_store
    pre = s.pre(s.self)
    changed = has(s.self._cache, k) & Not(has(pre._cache, k) & mk_bool(mval(s.self._cache, k) == mval(pre._cache, k)))
    return implies(changed, has(b._data, k) & mk_bool(e_val(s.self._cache, k) == mval(b._data, k))
                   & mk_bool(e_at(s.self._cache, k) == num(now_ns(s.self))))


fn(SoftTTLCache, "handle_event", args={"event": lambda: _RefreshEvent(Str.fresh("key"))}, uses=KV_API + ST_STORE,
   focus=ST_FOCUS, requires=[ST_UNBOUNDED],
   yields=Yields(at_yield=[
       ("delay-nonnegative", lambda s, y: _delay(y) >= 0),
       # the in-flight mark is what coalesces readers and suppresses duplicate refreshes: it stays while the fetch runs
       ("refresh-marks-untouched-while-fetching", lambda s, y: unchanged(s, s.self, "_refreshing_keys", "_cache"))],
       stable=[("Entity", "_clock")]),
   ensures=[
    ("refresh-mark-cleared-when-the-refresh-ends", lambda s: Not(has(s.self._refreshing_keys, s.event.key))),
    ("only-this-key-s-mark-is-cleared", lambda s: mk_bool(
        sdom(s.self._refreshing_keys) == without(sdom(s.pre(s.self)._refreshing_keys), s.event.key))),
    ("installed-value-is-the-current-backing-value-stamped-now", _st_refresh_installs),
    ("fetched-value-is-installed", lambda s: implies(has(s.self._backing_store._data, s.event.key),
        has(s.self._cache, s.event.key)
        & mk_bool(e_val(s.self._cache, s.event.key) == mval(s.self._backing_store._data, s.event.key))
        & mk_bool(e_at(s.self._cache, s.event.key) == num(now_ns(s.self))))),
    ("vanished-key-leaves-the-cache-untouched", lambda s: implies(Not(has(s.self._backing_store._data, s.event.key)),
        mk_bool(s.self._cache.term == s.pre(s.self)._cache.term))),
    ("other-entries-kept-or-evicted", lambda s: forall(Str, lambda j: implies(
        mk_bool(kt(j) != kt(s.event.key)) & has(s.self._cache, j),
        has(s.pre(s.self)._cache, j) & mk_bool(mval(s.self._cache, j) == mval(s.pre(s.self)._cache, j))))),
])

# ============================================================================ D. MultiTierCache (synchronous part)
# Tiers are CachedStore instances (the only tier class the repo ships); the contracts below are checked for
# a two-tier cache (the tier list is concrete, everything else symbolic).  The tier operations are used through
# the CachedStore contracts of part B; get/put (generators over the tier generators) follow after delete.
from happysimulator.components.datastore.multi_tier_cache import MultiTierCache  # noqa: E402

cls(MultiTierCache, fields={"_tiers": Seq(Ref(CachedStore)), "_backing_store": Ref(KVStore), "_promotion_policy": Any,
                            "_access_counts": CNT, "_reads": Int, "_writes": Int, "_tier_hits": Map(Int, Int),
                            "_backing_store_hits": Int, "_misses": Int, "_promotions": Int},
    const=["_tiers", "_backing_store", "_promotion_policy"])
stub_of(MultiTierCache, "_should_promote", returns=Bool, modifies=[], ensures=[])     # any promotion decision


def _two_tiers(s):
    t0, t1 = Ref(CachedStore).fresh("tier0"), Ref(CachedStore).fresh("tier1")
    assume(Not(same(t0, t1)) & Not(same(t0._eviction_policy, t1._eviction_policy)))
    s.self._tiers = [t0, t1]
    s.t0, s.t1 = t0, t1
    for t in (t0, t1):
        assume(t._backing_store._capacity is None)
    return [t0, t1, t0._eviction_policy, t1._eviction_policy, t0._backing_store, t1._backing_store]


def _tier_inv(s, t):
    return sym_and(*[f(NS_(self=t)) for _, f in CS_INV_CLAUSES])


class NS_:
    def __init__(ns, **kw):
        ns.__dict__.update(kw)


MT_USES = POLICY_IFACE + CS_HELPERS + [(CachedStore, "invalidate"), (CachedStore, "invalidate_all")]

fn(MultiTierCache, "invalidate", args={"key": Str}, setup=_two_tiers, uses=MT_USES, ensures=[
    ("no-tier-holds-the-key", lambda s: Not(has(s.t0._cache, s.key)) & Not(has(s.t1._cache, s.key))),
    # (write-back safety of each tier's invalidate is the CachedStore.invalidate clause of part B)
    ("tiers-keep-their-invariants", lambda s: _tier_inv(s, s.t0) & _tier_inv(s, s.t1))])

fn(MultiTierCache, "invalidate_all", setup=_two_tiers, uses=MT_USES, ensures=[
    ("every-tier-empty", lambda s: mk_bool(sdom(s.t0._cache) == EMPTY_S) & mk_bool(sdom(s.t1._cache) == EMPTY_S)),
    ("access-counts-reset", lambda s: mk_bool(sdom(s.self._access_counts) == EMPTY_S)),
    ("tiers-keep-their-invariants", lambda s: _tier_inv(s, s.t0) & _tier_inv(s, s.t1))])

fn(MultiTierCache, "_cache_value", args={"key": Str, "value": Any}, setup=_two_tiers, uses=MT_USES, ensures=[
    ("fastest-tier-holds-the-value", lambda s: implies(Not(has(s.old(s.t0)._cache, s.key)),
        has(s.t0._cache, s.key) & mk_bool(mval(s.t0._cache, s.key) == s.value.t))),
    # a fill carries a value fetched before the last yield: an entry written meanwhile is newer and must stay
    ("fill-never-overwrites-an-entry", lambda s: implies(has(s.old(s.t0)._cache, s.key), unchanged(s, s.t0, "_cache", "_dirty_keys"))),
    ("lower-tier-untouched", lambda s: unchanged(s, s.t1, "_cache", "_dirty_keys")),
    ("tiers-keep-their-invariants", lambda s: _tier_inv(s, s.t0) & _tier_inv(s, s.t1)),
    ("tier0-dirty-only-leaves-written", lambda s: _written_back(s.old(s.t0), s.t0))])

fn(MultiTierCache, "_maybe_promote", args={"key": Str, "value": Any, "from_tier": Int}, setup=_two_tiers,
   uses=MT_USES + [(MultiTierCache, "_should_promote")], ensures=[
    ("promotion-only-from-a-lower-tier", lambda s: implies(s.from_tier <= 0, unchanged(s, s.t0, "_cache") & unchanged(s, s.self, "_promotions"))),
    ("promotion-never-overwrites-an-entry", lambda s: implies(has(s.old(s.t0)._cache, s.key), unchanged(s, s.t0, "_cache", "_dirty_keys"))),
    ("promoted-value-lands-in-fastest-tier", lambda s: implies(
        s.self._promotions == s.old(s.self)._promotions + 1,
        has(s.t0._cache, s.key) & mk_bool(mval(s.t0._cache, s.key) == s.value.t))),
    ("counts-promotions", lambda s: (s.self._promotions == s.old(s.self)._promotions)
        | (s.self._promotions == s.old(s.self)._promotions + 1)),
    ("lower-tier-untouched", lambda s: unchanged(s, s.t1, "_cache", "_dirty_keys")),
    ("tiers-keep-their-invariants", lambda s: _tier_inv(s, s.t0) & _tier_inv(s, s.t1))])

def _one_tier(s):
    """single-tier variant (the two-tier delete obligations make z3 answer `unknown` on the unrepaired tree)"""
    t0 = Ref(CachedStore).fresh("tier0")
    s.self._tiers = [t0]
    s.t0 = s.t1 = t0
    assume(t0._backing_store._capacity is None)
    return [t0, t0._eviction_policy, t0._backing_store]


fn(MultiTierCache, "delete", args={"key": Str}, setup=_one_tier, uses=MT_USES + KV_API,
   focus=lambda s: [s.self._backing_store],
   requires=[("backing-store-unbounded", lambda s: s.self._backing_store._capacity is None)],
   yields=Yields(at_yield=[
       ("delay-nonnegative", lambda s, y: y >= 0),
       ("removed-from-every-tier-at-once", lambda s, y: Not(has(s.t0._cache, s.key)) & Not(has(s.t1._cache, s.key))),
       ("tiers-keep-their-invariants", lambda s, y: _tier_inv(s, s.t0) & _tier_inv(s, s.t1))],
       stable=[("Entity", "_clock")]),
   ensures=[
    # (a tier entry that became dirty while the delete was in flight is a later write-back write: it survives)
    ("deleted-from-backing-store", lambda s: implies(
        Not(has(s.pre(s.t0)._dirty_keys, s.key)) & Not(has(s.pre(s.t1)._dirty_keys, s.key)),
        Not(has(s.self._backing_store._data, s.key)))),
    # a miss fill that raced with the delete must not leave the deleted value in a tier
    ("completed-delete-not-shadowed-by-a-tier0-entry", lambda s: Not(has(s.t0._cache, s.key))),
    ("completed-delete-not-shadowed-by-a-tier1-entry", lambda s: Not(has(s.t1._cache, s.key))),
    ("tiers-keep-their-invariants", lambda s: _tier_inv(s, s.t0) & _tier_inv(s, s.t1))])

# ---- get / put: generators over the tier generators.  CachedStore.get / CachedStore.put run inlined (their own
# helpers and the KVStore API through the contracts of part B), so every yield of a tier operation is a yield of
# the multi-tier operation: the tier invariants (capacity, tracked == keys, dirty subset) are obligations there.
import pyvc.ctx as _pctx  # noqa: E402


_FEAS_SAVED = []


def _cheap_feasibility(setup, divisor=12):
    """setup wrapper for tasks with several CachedStore objects in focus: the branch-feasibility queries (sat
    checks over two capacity-bounded maps + instantiated guarantees) run into the deterministic budget and answer
    `unknown` after seconds each; `unknown` keeps the path (sound), so a smaller budget only saves the waiting.
    The obligation budget is cut to 1/8 as well: every obligation of these tasks is proved within a fraction of it
    on the unchanged tree (a proof that needs more becomes UNDECIDED, never a pass); what it bounds is the second
    stage of a FAILING obligation (search for a model of the quantified facts, which z3 gives up on after the whole
    budget), so that a broken tree yields VIOLATION lines instead of a task timeout.
    _restore_feasibility (teardown) undoes both after every path."""
    def wrapped(s):
        _FEAS_SAVED.append((_pctx.FEAS_RLIMIT, _pctx.OB_RLIMIT))
        _pctx.FEAS_RLIMIT = max(100000, _pctx.FEAS_RLIMIT // divisor)
        _pctx.OB_RLIMIT = max(1000000, _pctx.OB_RLIMIT // 8)
        _pctx.cur().solver.set("rlimit", _pctx.FEAS_RLIMIT)
        return setup(s)
    return wrapped


def _restore_feasibility(s):
    if _FEAS_SAVED:
        _pctx.FEAS_RLIMIT, _pctx.OB_RLIMIT = _FEAS_SAVED.pop()


def _nth_yield():
    """number of yields on the current path, the current one included (clause helper)"""
    return len([x for x in _pctx.cur().sig if x[0] == "yield"])


def _tier_kept(s, t):
    """no entry of tier t that exists at the start of the final segment is overwritten"""
    pre = s.pre(t)
    return forall(Str, lambda j: implies(has(pre._cache, j) & has(t._cache, j),
                                         mk_bool(mval(t._cache, j) == mval(pre._cache, j))))


def _mt_get_result(s):
    """a key held by a tier when get() is called is served from the FASTEST tier holding it; otherwise the value
    the backing store holds when the fetch completes"""
    o0, o1 = s.old(s.t0), s.old(s.t1)
    if o0._cache.__contains__(s.key):
        return (s.result is not None) and mk_bool(s.result.t == mval(o0._cache, s.key))
    if o1._cache.__contains__(s.key):
        return (s.result is not None) and mk_bool(s.result.t == mval(o1._cache, s.key))
    b = s.pre(s.self._backing_store)
    if b._data.__contains__(s.key):
        return (s.result is not None) and mk_bool(s.result.t == mval(b._data, s.key))
    return s.result is None


def _mt_focus(s):
    return [s.self._backing_store]


MT_UNBOUNDED = ("backing-store-unbounded", lambda s: s.self._backing_store._capacity is None)
MT_GEN_USES = MT_USES + KV_API
MT_AT_YIELD = [
    ("delay-nonnegative", lambda s, y: y >= 0),
    ("tiers-keep-their-invariants", lambda s, y: _tier_inv(s, s.t0) & _tier_inv(s, s.t1)),
    ("tier0-dirty-only-leaves-written", lambda s, y: _written_back(s.pre(s.t0), s.t0)),
    ("tier1-dirty-only-leaves-written", lambda s, y: _written_back(s.pre(s.t1), s.t1)),
]

fn(MultiTierCache, "get", args={"key": Str}, setup=_cheap_feasibility(_two_tiers), teardown=_restore_feasibility,
   uses=MT_GEN_USES + [(MultiTierCache, "_should_promote")],
   focus=_mt_focus, requires=[MT_UNBOUNDED],
   yields=Yields(at_yield=MT_AT_YIELD, stable=[("Entity", "_clock")]),
   ensures=[
    ("served-from-fastest-tier-else-current-backing-value", _mt_get_result),
    # a read never replaces a tier entry: what a concurrent write put there while the read was in flight is newer
    ("fill-never-overwrites-a-tier0-entry", lambda s: _tier_kept(s, s.t0)),
    ("fill-never-overwrites-a-tier1-entry", lambda s: _tier_kept(s, s.t1)),
    ("whatever-enters-tier0-is-the-returned-value", lambda s: implies(
        has(s.t0._cache, s.key) & Not(has(s.pre(s.t0)._cache, s.key)),
        (s.result is not None) and mk_bool(mval(s.t0._cache, s.key) == s.result.t))),
    ("miss-fill-is-the-current-backing-value", lambda s: implies(
        Not(has(s.old(s.t0)._cache, s.key)) & Not(has(s.old(s.t1)._cache, s.key))
        & has(s.t0._cache, s.key) & Not(has(s.pre(s.t0)._cache, s.key)),
        has(s.self._backing_store._data, s.key)
        & mk_bool(mval(s.t0._cache, s.key) == mval(s.self._backing_store._data, s.key)))),
    ("a-read-only-adds-to-tier0", lambda s: mk_bool(z3.IsSubset(sdom(s.t1._cache), sdom(s.pre(s.t1)._cache)))),
    ("tiers-keep-their-invariants", lambda s: _tier_inv(s, s.t0) & _tier_inv(s, s.t1)),
    ("tier0-dirty-only-leaves-written", lambda s: _written_back(s.pre(s.t0), s.t0)),
    ("tier1-dirty-only-leaves-written", lambda s: _written_back(s.pre(s.t1), s.t1)),
])


def _mt_put_visible(s, y):
    """from the moment the backing-store write has completed (every yield after the first): the value is in the
    backing store and in tier 0 and no lower tier holds an older entry for the key"""
    if _nth_yield() < 2:
        return True
    b = s.self._backing_store
    # (a tier entry of the key that is dirty when the store write completes is an unflushed write-back write: the
    # tier's invalidate writes it back first - CachedStore.invalidate - and tier 0 then holds the new value dirty)
    no_dirty = Not(has(s.pre(s.t0)._dirty_keys, s.key)) & Not(has(s.pre(s.t1)._dirty_keys, s.key))
    return (implies(no_dirty, has(b._data, s.key) & mk_bool(mval(b._data, s.key) == s.value.t))
            & has(s.t0._cache, s.key) & mk_bool(mval(s.t0._cache, s.key) == s.value.t)
            & Not(has(s.t1._cache, s.key)))


fn(MultiTierCache, "put", args={"key": Str, "value": Any}, setup=_cheap_feasibility(_two_tiers),
   teardown=_restore_feasibility, uses=MT_GEN_USES,
   focus=_mt_focus, requires=[MT_UNBOUNDED],
   yields=Yields(at_yield=MT_AT_YIELD + [
       ("no-tier-write-before-the-backing-store-write-completed", lambda s, y: True if _nth_yield() >= 2 else
           unchanged(s, s.t0, "_cache", "_dirty_keys") & unchanged(s, s.t1, "_cache", "_dirty_keys")),
       ("written-value-in-store-and-tier0-and-no-stale-lower-tier-entry", _mt_put_visible),
       ("write-back-tier0-marks-dirty", lambda s, y: True if _nth_yield() < 2 else implies(
           Not(s.t0._write_through), has(s.t0._dirty_keys, s.key)))],
       stable=[("Entity", "_clock")]),
   ensures=[
    # read-after-write through tier 0: after the completed put tier 0 holds nothing else for the key unless a later
    # write to the key started on it (ticket of CachedStore.put/delete)
    ("completed-write-not-shadowed-by-stale-tier0-entry", lambda s: implies(
        s.t0._write_through & (s.t0.g_writes.get(s.key, 0) == s.old(s.t0).g_writes.get(s.key, 0) + 1)
        & has(s.t0._cache, s.key), mk_bool(mval(s.t0._cache, s.key) == s.value.t))),
    ("write-through-tier0-makes-durable-in-its-store", lambda s: implies(
        s.t0._write_through, has(s.t0._backing_store._data, s.key)
        & mk_bool(mval(s.t0._backing_store._data, s.key) == s.value.t))),
    ("tiers-keep-their-invariants", lambda s: _tier_inv(s, s.t0) & _tier_inv(s, s.t1)),
    ("tier0-dirty-only-leaves-written", lambda s: _written_back(s.pre(s.t0), s.t0)),
    ("tier1-dirty-only-leaves-written", lambda s: _written_back(s.pre(s.t1), s.t1)),
])

# ============================================================================ E. write policies
cls(WriteThrough, fields={})
cls(WriteBack, fields={"_flush_interval": Real, "_max_dirty": Int, "_dirty_keys": SSET, "_last_flush_time": Real},
    const=["_flush_interval", "_max_dirty"], inv=[("max-dirty-positive", lambda o: o._max_dirty >= 1)])
cls(WriteAround, fields={"_invalidated_keys": Seq(Str)})

fn(WriteThrough, "should_write_through", ensures=[("always", lambda s: s.result is True)])
fn(WriteThrough, "should_flush", ensures=[("never", lambda s: s.result is False)])
fn(WriteThrough, "get_keys_to_flush", ensures=[("nothing-to-flush", lambda s: len(s.result) == 0)])
fn(WriteBack, "should_write_through", ensures=[("never", lambda s: s.result is False)])
fn(WriteBack, "on_write", args={"key": Str, "value": Any}, ensures=[
    ("written-key-becomes-dirty", lambda s: mk_bool(sdom(s.self._dirty_keys) == with_(sdom(s.old(s.self)._dirty_keys), s.key)))])
fn(WriteBack, "should_flush", ensures=[
    ("flush-when-dirty-limit-reached", lambda s: iff(s.result, slen(s.self._dirty_keys) >= s.self._max_dirty)),
    ("pure", lambda s: unchanged(s, s.self))])
fn(WriteBack, "get_keys_to_flush", ensures=[
    # membership form: holds for a set snapshot (list(set)) and for a sorted list (sorted(set), C03 repair) alike
    ("exactly-the-dirty-keys", lambda s: forall(Str, lambda k: iff(
        mk_bool(s.result.__sym_contains__(k)), has(s.self._dirty_keys, k)))),
    ("pure", lambda s: unchanged(s, s.self))])
fn(WriteAround, "should_write_through", ensures=[("always", lambda s: s.result is True)])
fn(WriteAround, "on_write", args={"key": Str, "value": Any}, ensures=[
    ("written-key-queued-for-invalidation", lambda s: mk_bool(
        seq_term(s.self._invalidated_keys) == z3.Concat(seq_term(s.old(s.self)._invalidated_keys), z3.Unit(kt(s.key)))))])
# WriteAround.get_keys_to_invalidate (`keys = self._l; self._l = []; return keys`) is not under contract: the
# engine binds a container read from a field to the field's location, so rebinding the field changes `keys`.

# ============================================================================ F. PageCache
# _pages: OrderedDict[int, _CachedPage] (LRU first), _CachedPage a mutable record (page_id, dirty).
#   capacity:   len(_pages) <= _capacity at every yield and at exit (class invariant);
#   write-back: a dirty page leaves the cache (or becomes clean) only in an atomic step that also counts a write-back
#               (two-state class guarantee; the write-back latency has been waited for before that step).
from happysimulator.components.infrastructure.page_cache import PageCache, _CachedPage  # noqa: E402
from pyvc.heap import ObjProxy as _ObjProxy  # noqa: E402

cls(_CachedPage, fields={"page_id": Int, "dirty": Bool})
PMAP = OMap(Int, Ref(_CachedPage))


def it_(p):
    return p.t if hasattr(p, "t") else z3.IntVal(p)


def pg_has(view, p):
    return mk_bool(z3.Select(odom(view._pages), it_(p)))


def pg_dirty(view, p):
    """dirty flag, in the state of `view`, of the page object cached under id p (meaningful where pg_has)"""
    pages = view._pages
    ref = z3.Select(pages._ty.dt.val(pages.term), it_(p))
    return _ObjProxy(ref, _CachedPage, object.__getattribute__(view, "_frozen")).dirty


cls(PageCache, fields={"_capacity": Int, "_page_size": Int, "_readahead": Int, "_disk_read_latency_s": Real,
                       "_disk_write_latency_s": Real, "_pages": PMAP, "_hits": Int, "_misses": Int,
                       "_evictions": Int, "_dirty_writebacks": Int, "_readaheads": Int},
    const=PC_CONST,
    inv=[("capacity-positive", lambda o: o._capacity >= 1),
         ("never-above-capacity", lambda o: slen(o._pages) <= o._capacity),
         ("latencies-nonneg", lambda o: (o._disk_read_latency_s >= 0) & (o._disk_write_latency_s >= 0)),
         ("cached-page-objects-are-allocated", lambda o: _pc_pages_allocated(o))])


def _pc_pages_allocated(o):
    """heap typing of the values of _pages (the engine assumes it for a reference when the CODE reads it; the
    clauses below read page objects through raw terms): every cached page object exists, i.e. is distinct from
    any object allocated later.  Checked (not only assumed) wherever the invariants are obligations."""
    a = _pctx.cur().heap.alloc
    pages = o._pages
    dom, val = odom(pages), pages._ty.dt.val(pages.term)
    return forall(Int, lambda p: implies(mk_bool(z3.Select(dom, it_(p))), mk_bool(
        z3.And(z3.Select(val, it_(p)) >= 1, z3.Select(val, it_(p)) <= a))))


def _pc_wb(old, new):
    """write-back safety over one uninterrupted stretch of a function's own steps (old = state at the latest of
    entry / resume / loop head): a page that was dirty and is no longer cached-and-dirty was written back in that
    stretch (the write-back latency is waited for before the stretch begins), and the counter never goes back"""
    return (new._dirty_writebacks >= old._dirty_writebacks) & forall(Int, lambda p: implies(
        pg_has(old, p) & pg_dirty(old, p) & Not(pg_has(new, p) & pg_dirty(new, p)),
        new._dirty_writebacks > old._dirty_writebacks))


PC_WB = ("dirty-page-leaves-or-becomes-clean-only-with-a-write-back", lambda s: _pc_wb(s.since(s.self), s.self))

fn(PageCache, "_touch", args={"page_id": Int}, requires=[("page-is-cached", lambda s: pg_has(s.self, s.page_id))], ensures=[
    ("cached-set-unchanged", lambda s: mk_bool(odom(s.self._pages) == odom(s.old(s.self)._pages))
        & (slen(s.self._pages) == slen(s.old(s.self)._pages))),
    ("touched-page-becomes-most-recent", lambda s: forall(Int, lambda j: implies(
        pg_has(s.self, j) & mk_bool(it_(j) != it_(s.page_id)),
        mk_bool(z3.Select(s.self._pages._ty.dt.pos(s.self._pages.term), it_(j))
                < z3.Select(s.self._pages._ty.dt.pos(s.self._pages.term), it_(s.page_id))))))])

def _bounded_page_cache(seed, tier):
    """bounded stand-in (PageCache.flush iterates the OrderedDict's values across yields - not reachable by the
    loop contracts of pyvc/omap.py): random concurrent read_page / write_page / flush schedules in the real
    Simulation; no exception, pages_cached <= capacity at every completion and sampler tick, a final flush leaves
    no dirty page"""
    return run_native_script("triage/c16_page_cache_bounded.py", 2000 if tier == "quick" else 40000, seed)


# active only with both page-cache repairs (on the unrepaired tree it reports the three findings of the report)
if PC_REPAIRED and "list(self._pages.values())" in _PC_SRC:
    PROPERTY["bounded"].append({"name": "page-cache-concurrent-schedules",
                                "bound": "2000 (quick) / 40000 (thorough) seeded random models: capacity 1-3, readahead 0-2, "
                                         "2-4 processes x 1-4 operations over 4 page ids",
                                "fn": _bounded_page_cache})

PC_YIELDS = dict(at_yield=[("delay-nonnegative", lambda s, y: y >= 0),
                           (PC_WB[0], lambda s, y: PC_WB[1](s))], stable=[("Entity", "_clock")])


def _pc_only_removes(s):
    """the final atomic segment only removes pages (never swaps a page object)"""
    pre = s.pre(s.self)
    return forall(Int, lambda p: implies(pg_has(s.self, p), pg_has(pre, p) & mk_bool(
        z3.Select(s.self._pages._ty.dt.val(s.self._pages.term), it_(p))
        == z3.Select(pre._pages._ty.dt.val(pre._pages.term), it_(p)))))


if PC_REPAIRED:
    fn(PageCache, "_evict_one", yields=Yields(**PC_YIELDS), ensures=[
        ("only-removes", _pc_only_removes),
        ("at-most-one-page-evicted", lambda s: (slen(s.self._pages) <= slen(s.pre(s.self)._pages))
            & (slen(s.self._pages) >= slen(s.pre(s.self)._pages) - 1)),
        ("evictions-counted", lambda s: s.self._evictions - s.pre(s.self)._evictions
            == slen(s.pre(s.self)._pages) - slen(s.self._pages)), PC_WB])

    fn(PageCache, "_ensure_space", yields=Yields(**PC_YIELDS), ensures=[
        ("room-for-one-page", lambda s: slen(s.self._pages) < s.self._capacity), PC_WB])

    # (`since` = state at the latest of entry / resume / exit of the make-room loop)
    fn(PageCache, "_load_page", args={"page_id": Int}, yields=Yields(**PC_YIELDS), ensures=[
        ("page-is-cached", lambda s: pg_has(s.self, s.page_id)),
        ("a-page-already-cached-is-not-replaced", lambda s: implies(pg_has(s.since(s.self), s.page_id), mk_bool(
            z3.Select(s.self._pages._ty.dt.val(s.self._pages.term), it_(s.page_id))
            == z3.Select(s.since(s.self)._pages._ty.dt.val(s.since(s.self)._pages.term), it_(s.page_id))))),
        ("one-page-added-at-most", lambda s: slen(s.self._pages) <= slen(s.since(s.self)._pages) + 1), PC_WB])

    fn(PageCache, "read_page", args={"page_id": Int}, requires=[("readahead-nonneg", lambda s: s.self._readahead >= 0)],
       yields=Yields(**PC_YIELDS), ensures=[
        ("hit-keeps-the-cached-set", lambda s: implies(pg_has(s.old(s.self), s.page_id),
            mk_bool(odom(s.self._pages) == odom(s.old(s.self)._pages)) & (s.self._hits == s.old(s.self)._hits + 1))),
        PC_WB])

    fn(PageCache, "write_page", args={"page_id": Int}, yields=Yields(**PC_YIELDS), ensures=[
        ("written-page-is-cached-dirty", lambda s: pg_has(s.self, s.page_id) & pg_dirty(s.self, s.page_id)),
        ("one-page-added-at-most", lambda s: slen(s.self._pages) <= slen(s.since(s.self)._pages) + 1), PC_WB])

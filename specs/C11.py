"""C11 - Raft: one leader per term, matching logs, durable commits, identical applies.

Per-node lemmas every Raft safety proof rests on (DESIGN.md section 3-C11: L1..L8), proved on the
real handlers; the cross-node composition is the standard paper argument, its purely
combinatorial steps are discharged as lemmas at the end of the file.
"""
from pyvc.spec import *

import os  # noqa: E402
from pyvc import ctx as _ctx  # noqa: E402
from pyvc.heap import Box, _default_of  # noqa: E402
from pyvc.types import Ty  # noqa: E402

F_RAFT = "happysimulator/components/consensus/raft.py"
F_NET = "happysimulator/components/network/network.py"

# ---------------------------------------------------------------------------- ghost statements
# Network: ghost log of every message created (a superset of the messages delivered)
ghost(F_NET, "Network.send", "return event",
      "self.g_sent[self.g_nsent] = (event_type, event.context['metadata']); self.g_nsent = self.g_nsent + 1", where="before")
# submit: what the client was promised (L8)
ghost(F_RAFT, "RaftNode.submit", "self._pending_futures[entry.index] = future",
      "future.g_index = entry.index; future.g_term = entry.term; future.g_cmd = entry.command")
# apply: ghost list of applied entries (L7); the entry a future is resolved for (L8)
ghost(F_RAFT, "RaftNode._apply_committed", "result = self._state_machine.apply(entry.command)",
      "self.g_applied.append(entry)")
ghost(F_RAFT, "RaftNode._apply_committed", "future.resolve(",
      "future.g_at_term = entry.term; future.g_at_cmd = entry.command", where="before")

# ---------------------------------------------------------------------------- loop contracts
# (the invariant bodies refer to helpers defined further down; they are only called at check time)
loop(F_RAFT, "RaftNode._find_peer", 1, inv=[
    ("no-earlier-peer-has-that-name", lambda L: forall(Int, lambda j: implies(
        (0 <= j) & (j < L.i), peer_at(L.self, j).name != L.source_name), "j"))])

SENT_LOG = [("Network", "g_sent"), ("Network", "g_nsent")]


def _sent_grows_by(L, n):
    return sent_extends_by(sent(L.self), sent(L.old(L.self)), n)


def _each_sent(L, ok):
    """every message created so far by this loop (one per visited peer) satisfies ok(node, sent element, peer index)"""
    base = sent(L.old(L.self)).n
    return forall(Int, lambda j: implies((0 <= j) & (j < L.i), ok(L.self, sent(L.self).at(base + j.t), j)), "j")


loop(F_RAFT, "RaftNode._start_election", 1, modifies=SENT_LOG, inv=[
    ("one-request-per-visited-peer", lambda L: _sent_grows_by(L, L.i)),
    ("requests-carry-own-term-and-log-position", lambda L: _each_sent(L, vote_request_ok))])

loop(F_RAFT, "RaftNode._become_leader", 1, modifies=[("RaftNode", "_next_index"), ("RaftNode", "_match_index")], inv=[
    ("visited-peers-reset", lambda L: forall(Int, lambda j: implies((0 <= j) & (j < L.i), replication_reset(L.self, j)), "j")),
    ("next-index-positive", lambda L: next_index_positive(L.self))])

from pyvc.comp import declare_comp  # noqa: E402

# entry_dicts = [{'index': e.index, 'term': e.term, 'command': e.command} for e in entries]
declare_comp(F_RAFT, "RaftNode._send_append_entries", 1, lambda: ENTRYREC)
declare_comp(F_RAFT, "RaftNode._handle_append_entries_response", 1, lambda: ENTRYREC)

loop(F_RAFT, "RaftNode._send_append_entries", 1, modifies=SENT_LOG, inv=[
    ("one-append-entries-per-visited-peer", lambda L: _sent_grows_by(L, L.i)),
    ("each-carries-the-log-suffix-after-the-followers-next-index", lambda L: _each_sent(L, append_ok))])

APPLY_WRITES = [("RaftNode", "_last_applied"), ("RaftNode", "_commands_committed"), ("RaftNode", "_pending_futures"),
                ("RaftNode", "g_applied"), ("KVStateMachine", "_data"), ("SimFuture", "_resolved"), ("SimFuture", "_value"),
                ("SimFuture", "g_at_term"), ("SimFuture", "g_at_cmd")]


def _apply_progress(L):
    """after i iterations exactly entries[0..i) have been applied, in order, right after the old prefix"""
    o, old = L.self, L.old(L.self)
    ga = seq_term(o.g_applied)
    note(L.i)
    note(old._last_applied + L.i)
    return ((o._last_applied == old._last_applied + L.i) & (slen(o.g_applied) == o._last_applied)
            & forall(Int, lambda p: implies((0 <= p) & (p < o._last_applied), mk_bool(
                elem_eq(nth(ga, p.t), nth(seq_term(log_entries(o)), p.t)))), "p"))


APPLY_LOOP = loop(F_RAFT, "RaftNode._apply_committed", 1, modifies=APPLY_WRITES, inv=[
    ("applied-so-far-is-the-log-prefix-in-order", _apply_progress),
    ("pending-futures-stand-for-their-log-entries", lambda L: _futures_match_log(L.self)),
    ("applied-counter", lambda L: L.self._commands_committed == L.old(L.self)._commands_committed + L.i)])

loop(F_RAFT, "RaftNode._handle_append_entries", 1,
     modifies=[("Log", "_entries"), ("Log", "commit_index"), ("RaftNode", "_pending_futures")], inv=[
    ("covered-range-carries-the-leaders-terms", lambda L: ae_covered(L.self, L.old(L.self), L.prev_log_index, L.seq, L.i)),
    ("entries-below-prev-untouched", lambda L: ae_prefix_kept(L.self, L.old(L.self), L.prev_log_index)),
    ("nothing-beyond-a-conflict-is-kept", lambda L: ae_tail(L.self, L.old(L.self), L.prev_log_index, L.i)),
    ("log-well-formed-and-committed-prefix-kept", lambda L: ae_log_ok(L.self, L.old(L.self))),
    ("pending-futures-stand-for-their-log-entries", lambda L: _futures_match_log(L.self))])

# the repair of the stale-future defect (fixes/C11_drop-futures-of-truncated-entries.diff) adds
# `for stale in range(idx, idx + removed): self._pending_futures.pop(stale, None)` after the truncation
loop(F_RAFT, "RaftNode._handle_append_entries", 2, modifies=[("RaftNode", "_pending_futures")], inv=[
    ("futures-of-the-removed-entries-dropped-so-far", lambda L: _futures_match_truncated(L.self, L.idx, L.removed, L.i))])

# _try_advance_commit: outer loop scans candidate indices downwards (state changes only on the path that
# breaks out, so the cut needs no state invariant); inner loop counts the followers whose match index covers n
loop(F_RAFT, "RaftNode._try_advance_commit", 1, inv=[("scans-candidates-above-the-commit-index", lambda L: True)])
loop(F_RAFT, "RaftNode._try_advance_commit", 2, inv=[
    ("count-is-self-plus-visited-followers-at-or-above-n", lambda L: L.count == 1 + mk_num(
        card_ge(match_val(L.self), L.visited.arr, zi(L.n))))])

from specs.common import *  # noqa: E402,F401

from happysimulator.components.consensus.log import Log, LogEntry  # noqa: E402
from happysimulator.components.consensus.raft import RaftNode, RaftState  # noqa: E402
from happysimulator.components.consensus.raft_state_machine import KVStateMachine  # noqa: E402
from happysimulator.components.network.network import Network  # noqa: E402
from happysimulator.core.sim_future import SimFuture  # noqa: E402

# (no wall-clock solver budget of its own: an 8 s cap used here made one obligation flip to UNDECIDED when all 16 workers
#  were busy; the deterministic rlimit budgets of pyvc/ctx.py decide, wall clocks are only a backstop)

PROPERTY = {
    "id": "C11",
    "level": "proof",
    "task_timeout": 3000 if "thorough" in sys.argv else 900,
    "trusted": ["heap typing of the fields declared in specs/C11.py and specs/common.py (incl. the local types EnumTy, "
                "Record, EventContext: RaftState stored as its int value; event metadata as a record with a presence set)",
                "structural reading of list surgery in clauses (specs/C11.py nth / pyvc/comp.py _nth,_len): for in-range "
                "indices append = concat-with-unit and slices = extract select the corresponding element of the source list",
                "card_ge: cardinality of a finite set unfolded along its construction (empty -> 0, new element -> +1 if it qualifies)",
                "pyvc/comp.py: `[f(e) for e in xs]` over a list of symbolic length is a list of the same length with "
                "element j equal to f(xs[j]); `{a}` with a symbolic element is the singleton set"],
    "assumptions": COMMON_ASSUMPTIONS + [
        "configuration: clusters of 3..5 nodes (2 <= len(_peers) <= 4, the range the property quantifies over); "
        "election timeouts and heartbeat interval are non-negative",
        "A-net (a delivered message was created by a sender): every Raft message a handler receives has the keys its sender "
        "puts (proved on the senders: _start_election, _send_append_entries, the reply sites; Network.send is proved to copy "
        "payload + source + destination; NetworkLink forwards context.copy()), AppendEntries entries carry indices "
        "prev_log_index+1.. in order (proved: append_ok/mirrors), reply match_index >= 0 (proved: _ae_shape). 'source' and "
        "'from' may be missing (handled).",
        "cross-node theorem used as a precondition of _handle_append_entries (requires `leader-agrees-with-my-committed-"
        "entries`): a leader of a term >= mine never disagrees with an entry I have committed (Leader Completeness + Log "
        "Matching, composed on paper from the proved clauses L2/L3/L5/L6 + lemmas of part E; the call-site duty "
        "`truncate_from(i) with i > commit_index` is discharged from it). Bounded native stand-in: PROPERTY['bounded'].",
        "Log Matching for commands (same index and term => same command) is NOT used: clauses that compare an entry "
        "the follower kept speak about terms, commands only where the handler wrote them",
        "the state machine is any object whose apply() touches only its own state (stub KVStateMachine.apply: arbitrary "
        "result, modifies _data); SimFuture.resolve is used through its stub (its requires are the L8 obligations); "
        "random.uniform(a, b) returns any real between a and b",
        "stored futures are allocated objects (typing; requires of submit)",
        "crash / restart: a crashed node handles no event (Event.invoke skips it) and keeps its fields; every clause is "
        "per handler invocation, so schedules with crashes are schedules with fewer deliveries",
        "not decided here: the fault-free liveness sentence and the cross-node induction itself (DESIGN 3-C11 'reach')",
    ],
}

# ============================================================================ A. the replicated log
# view: _entries is the sequence of entries, entry k (1-based) sits at position k-1
LOGENTRY = valueclass("LogEntry", [LogEntry], [("index", Int), ("term", Int), ("command", Any)])
LE = LOGENTRY.dt
ENTRIES = Seq(LOGENTRY)
APPLY_LOOP.elem = LOGENTRY      # `_apply_committed([])`: the empty list advance_commit returns when nothing is new


def zi(x):
    """raw z3 Int term of a python/symbolic int (raw terms pass through)"""
    return x if z3.is_expr(x) else num(x)


def nth(t, i):
    """t[i] for 0 <= i < Length(t) (only ever used under that guard), with the list surgery the code
    performed (append = concat with a unit, slices = extract) resolved structurally, so that goals
    speak about elements of the pre-state sequences instead of nth-of-concat terms"""
    t = z3.simplify(t)
    k = t.decl().kind() if z3.is_app(t) else None
    if k == z3.Z3_OP_SEQ_UNIT:
        return t.arg(0)
    if k == z3.Z3_OP_SEQ_CONCAT:
        kids = t.children()
        head, rest = kids[0], (kids[1] if len(kids) == 2 else z3.Concat(*kids[1:]))
        n0 = z3.Length(head)
        return z3.If(i < n0, nth(head, i), nth(rest, i - n0))
    if k == z3.Z3_OP_SEQ_EXTRACT:
        return nth(t.arg(0), t.arg(1) + i)
    if k == z3.Z3_OP_ITE:
        return z3.If(t.arg(0), nth(t.arg(1), i), nth(t.arg(2), i))
    return t[i]


def note(x):
    """register the (loop counter / position) term x as an instantiation point of the quantified assumptions"""
    if not isinstance(x, int):
        _ctx.cur().note_term(z3.simplify(zi(x)))


def hint(q, term):
    """when the bound variable q of a goal has been skolemised, register `term` (built from it) as an
    instantiation point for the quantified assumptions (only for skolems: no instantiation cascade)"""
    t = getattr(q, "t", q)
    c = _ctx.cur()
    if z3.is_const(t) and str(t).startswith("sk_") and not getattr(c, "inst_depth", 0):
        c.note_term(z3.simplify(term))


def ent_at(entries, k):
    """raw LogEntry term of the entry with (1-based) log index k (for 1 <= k <= len)"""
    return nth(seq_term(entries) if not z3.is_expr(entries) else entries, zi(k) - 1)


def contiguous(entries, base=0):
    """entry at position p carries index base+p+1"""
    return forall(Int, lambda p: implies((0 <= p) & (p < slen(entries)),
                                         mk_bool(LE.index(nth(seq_term(entries), p.t)) == zi(base) + p.t + 1)), "p")


def elem_eq(a, b):
    """equality of sequence elements; log entries are compared by their data fields (index, term, command):
    the variant tag of the value-class encoding is not data"""
    if a.sort() == LE:
        return z3.And(LE.index(a) == LE.index(b), LE.term(a) == LE.term(b), LE.command(a) == LE.command(b))
    return a == b


def same_upto(a, b, n):
    """pointwise: the raw sequences a and b have the same first n elements (n <= both lengths)"""
    return forall(Int, lambda p: implies((0 <= p) & (p < n), mk_bool(elem_eq(nth(a, p.t), nth(b, p.t)))), "p")


def extends_by(new, old, n):
    """raw sequence `new` is `old` followed by exactly n more elements (pointwise form of a prefix test)"""
    return mk_bool(z3.simplify(z3.Length(new)) == z3.simplify(z3.Length(old)) + zi(n)) & same_upto(new, old, mk_num(z3.Length(old)))


def extends(new, old):
    return mk_bool(z3.simplify(z3.Length(new)) >= z3.simplify(z3.Length(old))) & same_upto(new, old, mk_num(z3.Length(old)))


def seq_eq(a, b):
    return mk_bool(a == b)


def sq(x):
    """raw sequence term of a symbolic or concrete list of log entries"""
    return ENTRIES.unwrap(x)


def same_entry(e, raw):
    """the LogEntry object e has the fields of the raw entry term (the variant tag is not data)"""
    return mk_bool(z3.And(zi(e.index) == LE.index(raw), zi(e.term) == LE.term(raw), e.command.t == LE.command(raw)))


def prefix_of(entries, n):
    """raw term: the first n entries"""
    return z3.Extract(seq_term(entries), z3.IntVal(0), zi(n))


cls(Log, fields={"_entries": ENTRIES, "commit_index": Int},
    inv=[("indices-contiguous-from-1", lambda o: contiguous(o._entries)),
         ("commit-index-within-log", lambda o: (0 <= o.commit_index) & (o.commit_index <= slen(o._entries)))],
    guarantee=[("commit-index-never-decreases", lambda old, new: new.commit_index >= old.commit_index),
               ("committed-prefix-never-changes", lambda old, new: (slen(new._entries) >= old.commit_index) & same_upto(
                   seq_term(new._entries), seq_term(old._entries), old.commit_index))])

ctor(Log, ensures=[("empty", lambda s: (slen(s.self._entries) == 0) & (s.self.commit_index == 0))])

fn(Log, "append", args={"term": Int, "command": Any}, ensures=[
    ("appended-at-len+1", lambda s: s.result.index == slen(s.old(s.self)._entries) + 1),
    ("carries-term-and-command", lambda s: (s.result.term == s.term) & (s.result.command == s.command)),
    ("log-extended-by-exactly-that-entry", lambda s: seq_eq(
        seq_term(s.self._entries), z3.Concat(seq_term(s.old(s.self)._entries), z3.Unit(LOGENTRY.unwrap(s.result))))),
    ("commit-untouched", lambda s: unchanged(s, s.self, "commit_index"))])

fn(Log, "append_entry", args={"entry": LOGENTRY}, ensures=[
    ("log-extended-by-entry-reindexed", lambda s: seq_eq(
        seq_term(s.self._entries), z3.Concat(seq_term(s.old(s.self)._entries), z3.Unit(
            LE.mk(z3.IntVal(0), zi(slen(s.old(s.self)._entries) + 1), zi(s.entry.term), s.entry.command.t))))),
    ("commit-untouched", lambda s: unchanged(s, s.self, "commit_index"))])


def _get_post(s):
    n = slen(s.self._entries)
    if s.result is None:
        return (s.index < 1) | (s.index > n)
    return (1 <= s.index) & (s.index <= n) & same_entry(s.result, ent_at(s.self._entries, s.index))


fn(Log, "get", args={"index": Int}, ensures=[
    ("entry-at-index-or-none-when-out-of-range", _get_post),
    ("result-carries-the-index", lambda s: True if s.result is None else s.result.index == s.index),
    ("pure", lambda s: unchanged(s, s.self))])


def _in_range(s):
    return (1 <= s.index) & (s.index <= slen(s.old(s.self)._entries))


fn(Log, "truncate_from", args={"index": Int},
   # L4: a committed entry is never removed.  The log alone cannot refuse, so this is a call-site obligation.
   requires=[("never-truncate-committed", lambda s: s.index > s.self.commit_index)],
   ensures=[
    ("keeps-exactly-the-prefix-below-index", lambda s: implies(_in_range(s), seq_eq(
        seq_term(s.self._entries), prefix_of(s.old(s.self)._entries, s.index - 1)))),
    ("out-of-range-is-a-noop", lambda s: implies(Not(_in_range(s)), unchanged(s, s.self) & (s.result == 0))),
    ("returns-number-removed", lambda s: s.result == slen(s.old(s.self)._entries) - slen(s.self._entries)),
    ("commit-index-kept", lambda s: unchanged(s, s.self, "commit_index"))])


def _suffix_from(entries, lo):
    t = seq_term(entries)
    return z3.Extract(t, zi(lo), z3.Length(t) - zi(lo))


fn(Log, "entries_after", args={"index": Int}, returns=ENTRIES, ensures=[
    ("exactly-the-suffix-after-index", lambda s: seq_eq(sq(s.result), _suffix_from(
        s.self._entries, ite(s.index < 0, 0, ite(s.index > slen(s.self._entries), slen(s.self._entries), s.index))))),
    ("pure", lambda s: unchanged(s, s.self))])

fn(Log, "last_index", ensures=[("is-length", lambda s: s.result == slen(s.self._entries)),
                               ("pure", lambda s: unchanged(s, s.self))])


def _last_term_post(s):
    n = slen(s.self._entries)
    return ite_b(n == 0, s.result == 0, mk_bool(zi(s.result) == LE.term(ent_at(s.self._entries, n))))


def ite_b(c, a, b):
    return implies(c, a) & implies(Not(c), b)


fn(Log, "last_term", ensures=[("term-of-last-entry-or-0", _last_term_post), ("pure", lambda s: unchanged(s, s.self))])


def _advance_post(s):
    old = s.old(s.self)
    n = slen(old._entries)
    target = ite(s.new_commit_index < n, s.new_commit_index, n)
    new_ci = ite(target > old.commit_index, target, old.commit_index)
    return (s.self.commit_index == new_ci) & seq_eq(
        sq(s.result), z3.Extract(seq_term(old._entries), zi(old.commit_index), zi(new_ci - old.commit_index)))


fn(Log, "advance_commit", args={"new_commit_index": Int}, returns=ENTRIES, ensures=[
    ("commit-is-max-of-old-and-clamped-target--returns-exactly-the-newly-committed-slice", _advance_post),
    ("entries-untouched", lambda s: unchanged(s, s.self, "_entries"))])


# ============================================================================ B. message / enum typing
# (types local to this property: a Python Enum stored in a field, and heterogeneous dicts with
# literal keys - the "metadata" of an event - as records with a presence set)
class EnumTy(Ty):
    def __init__(self, enum):
        self.enum, self.members = enum, list(enum)
        self.name = f"Enum({enum.__name__})"

    def sort(self):
        return z3.IntSort()

    def _rng(self, term):
        return z3.Or(*[term == m.value for m in self.members])

    def wrap(self, term, loc=None):
        term = z3.simplify(term)
        if z3.is_int_value(term):
            return self.enum(term.as_long())
        c = _ctx.cur()
        c.assume(self._rng(term))
        return self.members[c.choose([term == m.value for m in self.members], site="enum:" + self.name)]

    def unwrap(self, v):
        if isinstance(v, self.enum):
            return z3.IntVal(v.value)
        raise OutOfReach(f"{type(v).__name__} stored where {self.name} is declared")

    def assume_wf(self, term):
        _ctx.cur().assume(self._rng(term))

    def concretize(self, model, term):
        v = model.eval(term, model_completion=True).as_long()
        return next((m.name for m in self.members if m.value == v), v)


class RecFieldLoc:
    def __init__(self, parent, rty, k):
        self.parent, self.rty, self.k = parent, rty, k

    def get(self):
        return self.rty.acc(self.k)(self.parent.get())

    def set(self, t):
        self.parent.set(self.rty.rebuild(self.parent.get(), vals={self.k: t}))


class Record(Ty):
    """dict with literal string keys of fixed value types: presence set + one typed slot per key"""

    def __init__(self, name, fields):
        self.name, self.fields = name, dict(fields)
        d = z3.Datatype("Rec_" + name)
        d.declare("mk", ("has", z3.ArraySort(z3.StringSort(), z3.BoolSort())),
                  *[("f_" + k, ty.sort()) for k, ty in self.fields.items()])
        self.dt = d.create()

    def sort(self):
        return self.dt

    def acc(self, k):
        return getattr(self.dt, "f_" + k)

    def has(self, term, k):
        return z3.Select(self.dt.has(term), z3.StringVal(k))

    def empty(self):
        return self.dt.mk(z3.K(z3.StringSort(), z3.BoolVal(False)), *[_default_of(ty.sort()) for ty in self.fields.values()])

    def rebuild(self, m, has=None, vals=None):
        vals = vals or {}
        return z3.simplify(self.dt.mk(has if has is not None else self.dt.has(m),
                                      *[vals.get(k, self.acc(k)(m)) for k in self.fields]))

    def wrap(self, term, loc=None):
        return RecProxy(loc if loc is not None else Box(term), self)

    def unwrap(self, v):
        if isinstance(v, RecProxy) and v._ty is self:
            return v._loc.get()
        if isinstance(v, dict):
            p = RecProxy(Box(self.empty()), self)
            for k, x in v.items():
                p[k] = x
            return p._loc.get()
        raise OutOfReach(f"{type(v).__name__} stored where record {self.name} is declared")


class RecProxy:
    def __init__(self, loc, ty):
        self._loc, self._ty = loc, ty

    @property
    def term(self):
        return self._loc.get()

    def _key(self, k):
        if not isinstance(k, str) or k not in self._ty.fields:
            raise OutOfReach(f"key {k!r} is not declared in record {self._ty.name}")
        return k

    def _val(self, k):
        return self._ty.fields[k].wrap(self._ty.acc(k)(self.term), RecFieldLoc(self._loc, self._ty, k))

    def get(self, k, default=None):
        k = self._key(k)
        if not _ctx.cur().branch(self._ty.has(self.term, k), site="rec:" + k):
            return default
        return self._val(k)

    def __getitem__(self, k):
        k = self._key(k)
        if not _ctx.cur().branch(self._ty.has(self.term, k), site="rec:" + k):
            raise KeyError(k)
        return self._val(k)

    def __contains__(self, k):
        return _ctx.cur().branch(self._ty.has(self.term, self._key(k)), site="rec:" + k)

    def __setitem__(self, k, v):
        k = self._key(k)
        m = self.term
        self._loc.set(self._ty.rebuild(m, has=z3.Store(self._ty.dt.has(m), z3.StringVal(k), z3.BoolVal(True)),
                                       vals={k: self._ty.fields[k].unwrap(v)}))

    def update(self, other):
        if isinstance(other, dict):
            for k, v in other.items():
                self[k] = v
            return
        if isinstance(other, RecProxy) and other._ty is self._ty:
            m, o, ty = self.term, other.term, self._ty
            self._loc.set(ty.rebuild(m, has=z3.SetUnion(ty.dt.has(m), ty.dt.has(o)),
                                     vals={k: z3.If(ty.has(o, k), ty.acc(k)(o), ty.acc(k)(m)) for k in ty.fields}))
            return
        raise OutOfReach("record.update with an unmodelled argument")

    def __bool__(self):
        return _ctx.cur().branch(self._ty.dt.has(self.term) != z3.K(z3.StringSort(), z3.BoolVal(False)), site="rec:bool")

    def copy(self):
        return RecProxy(Box(self.term), self._ty)

    __hash__ = None


ENTRYREC = Record("entry", {"index": Int, "term": Int, "command": Any})
ER = ENTRYREC.dt
MSG = Record("raftmsg", {
    "source": Str, "destination": Str, "term": Int, "from": Str,
    "candidate_id": Str, "last_log_index": Int, "last_log_term": Int, "vote_granted": Bool,
    "leader_id": Str, "prev_log_index": Int, "prev_log_term": Int, "entries": Seq(ENTRYREC), "leader_commit": Int,
    "success": Bool, "match_index": Int})
M = MSG.dt


class CtxProxy:
    """Event.context: only the 'metadata' entry is modelled ('id'/'created_at' are write-only here)"""

    def __init__(self, loc):
        self._loc = loc

    def _md(self, k):
        if k != "metadata":
            raise OutOfReach(f"event context key {k!r} is not modelled in specs/C11.py")
        return RecProxy(self._loc, MSG)

    def get(self, k, default=None):
        return self._md(k)

    __getitem__ = _md

    def setdefault(self, k, v=None):
        return v if k in ("id", "created_at") else self._md(k)

    def copy(self):
        return CtxProxy(Box(self._loc.get()))

    __hash__ = None


class _CtxTy(Ty):
    name = "EventContext"

    def sort(self):
        return MSG.sort()

    def wrap(self, term, loc=None):
        return CtxProxy(loc if loc is not None else Box(term))

    def unwrap(self, v):
        if isinstance(v, CtxProxy):
            return v._loc.get()
        if isinstance(v, dict) and set(v) <= {"id", "created_at", "metadata"}:
            return MSG.unwrap(v.get("metadata", {}))
        raise OutOfReach(f"{type(v).__name__} stored as event context")


CTX = _CtxTy()
cls(Event, fields={"context": CTX})          # overrides the opaque Map(Str, Any) typing of specs/common.py (this check only)
STATE = EnumTy(RaftState)
FOLLOWER, CANDIDATE, LEADER = RaftState.FOLLOWER.value, RaftState.CANDIDATE.value, RaftState.LEADER.value
OPTSTR = Opt(Str)


def md(event, state=None):
    """raw MSG term of an event's metadata"""
    return field_term(event, "context", state)


def mhas(m, *keys):
    return mk_bool(z3.And(*[MSG.has(m, k) for k in keys]))


def mget(m, k):
    """wrapped scalar field of a raw message term"""
    return MSG.fields[k].wrap(MSG.acc(k)(m))


# ============================================================================ C. network: message creation
SENT = Tuple(Str, MSG)
SENTMAP = Map(Int, SENT)      # ghost log as an array: message k of the run under key k, g_nsent messages so far
cls(Network, ghost={"g_sent": SENTMAP, "g_nsent": Int})


def built_msg(payload, source, destination):
    """the metadata Network.send builds: {} + source + destination + payload (raw term)"""
    p = RecProxy(Box(MSG.empty()), MSG)
    p["source"] = source.name
    p["destination"] = destination.name
    if payload is not None:
        p.update(payload)
    return p.term


def _send_post(s):
    m = built_msg(s.payload, s.source, s.destination)
    r = s.result
    new, old = sent_of_network(s.self), sent_of_network(s.old(s.self))
    return [("message-recorded-as-sent", mk_bool(z3.And(new.n == old.n + 1, new.arr == z3.Store(
                old.arr, old.n, SENT.dt.mk(Str.unwrap(s.event_type), m))))),
            ("carries-source-destination-and-payload", mk_bool(md(r) == m)),
            ("addressed-to-the-network-now", same(r.target, s.self) & (ns(r.time) == now_ns(s.self))
                & (r.event_type == s.event_type) & iff(r.daemon, s.daemon) & Not(r._cancelled))]


SEND_ARGS = {"source": Ref(Entity), "destination": Ref(Entity), "event_type": Str, "payload": Opt(MSG), "daemon": Bool}
fn(Network, "send", args=SEND_ARGS, returns=Ref(Event), modifies=["g_sent", "g_nsent"],
   ensures=[(n, (lambda s, i=i: _send_post(s)[i][1])) for i, n in enumerate(
       ["message-recorded-as-sent", "carries-source-destination-and-payload", "addressed-to-the-network-now"])])
SEND = (Network, "send")


class SentLog:
    """view of the ghost log of created messages: message k is at(k), 0 <= k < n (raw terms)"""

    def __init__(self, arr, n):
        self.arr, self.n = arr, n

    def at(self, k):
        return z3.Select(self.arr, zi(k))


def sent_of_network(net):
    return SentLog(SENTMAP.dt.val(field_term(net, "g_sent")), field_term(net, "g_nsent"))


def sent(o):
    """the ghost log of messages created through o's network, in o's heap state"""
    return sent_of_network(ObjProxy(field_term(o, "_network"), Network, o._frozen))


def sent_extends(new, old):
    return mk_bool(new.n >= old.n) & forall(Int, lambda p: implies((0 <= p) & mk_bool(p.t < old.n), mk_bool(new.at(p) == old.at(p))), "p")


def sent_extends_by(new, old, n):
    return mk_bool(new.n == old.n + zi(n)) & sent_extends(new, old)


def kind_of(sent_elem):
    return Str.wrap(SENT.acc(0)(sent_elem))


def msg_of(sent_elem):
    return SENT.acc(1)(sent_elem)


# ============================================================================ D. the Raft node
cls(KVStateMachine, fields={"_data": Map(Str, Any)})
stub_of(KVStateMachine, "apply", args={"command": Any}, returns=Any, modifies=["_data"], ensures=[])
SM_APPLY = (KVStateMachine, "apply")

cls(SimFuture, fields={"_resolved": Bool, "_value": Any, "_parked_process": Any, "_parked_event_type": Any,
                       "_parked_daemon": Bool, "_parked_target": Any, "_parked_on_complete": Any,
                       "_parked_context": Any, "_settle_callbacks": Seq(Any)},
    # what submit promised (index, term, command) / the entry the future is being resolved for
    ghost={"g_index": Int, "g_term": Int, "g_cmd": Any, "g_at_term": Int, "g_at_cmd": Any})
# L8: a submit future is resolved only with the index of its own entry, when the entry committed
# at that index is the submitted one (same term, same command)
stub_of(SimFuture, "resolve", args={"value": Tuple(Int, Any)}, modifies=["_resolved", "_value"], requires=[
    ("future-resolved-with-the-index-it-was-registered-for", lambda s: s.value[0] == s.self.g_index),
    ("entry-committed-at-that-index-is-the-submitted-one", lambda s: (s.self.g_at_term == s.self.g_term)
        & (s.self.g_at_cmd == s.self.g_cmd))], ensures=[])
FUT_RESOLVE = (SimFuture, "resolve")

stub_of("random", "uniform", returns=Real, ensures=[
    lambda s: ((s.a <= s.result) & (s.result <= s.b)) | ((s.b <= s.result) & (s.result <= s.a))])
UNIFORM = ("random", "uniform")

NODE = Ref(RaftNode)
FUTS = Map(Int, Ref(SimFuture))
cls(RaftNode, fields={
    "_network": Ref(Network), "_peers": Seq(NODE), "_state_machine": Ref(KVStateMachine),
    "_election_timeout_min": Real, "_election_timeout_max": Real, "_heartbeat_interval": Real,
    "_current_term": Int, "_voted_for": OPTSTR, "_log": Ref(Log), "_state": STATE, "_leader": OPTSTR,
    "_last_applied": Int, "_next_index": Map(Str, Int), "_match_index": Map(Str, Int),
    "_votes_received_set": Set(Str), "_election_timeout_event": OptRef(Event), "_heartbeat_event": OptRef(Event),
    "_pending_futures": FUTS, "_commands_committed": Int, "_elections_started": Int, "_total_votes_received": Int},
    ghost={"g_applied": ENTRIES},
    const=["_network", "_peers", "_state_machine", "_log", "_election_timeout_min", "_election_timeout_max",
           "_heartbeat_interval"])


def peer_at(o, j):
    """the j-th peer (no fork): proxy over the raw sequence element"""
    return ObjProxy(seq_term(o._peers)[zi(j)], RaftNode)


def state_of(o):
    return mk_num(field_term(o, "_state"))


def voted(o):
    """raw Opt(Str) term of _voted_for"""
    return field_term(o, "_voted_for")


def log_of(o):
    """the node's Log in the same heap state as the view o"""
    lg = o._log
    return ObjProxy(lg._ref, Log, o._frozen)


def log_entries(o):
    return log_of(o)._entries


def commit_of(o):
    return log_of(o).commit_index


def fut_at(o, i):
    """proxy of the pending future registered under key i (meaningful only where i is a key)"""
    m = field_term(o, "_pending_futures")
    return ObjProxy(z3.Select(FUTS.dt.val(m), zi(i)), SimFuture, o._frozen)


def fut_pending(o, i):
    return mk_bool(z3.Select(FUTS.dt.dom(field_term(o, "_pending_futures")), zi(i)))


def _futures_match_log(o):
    """L8 invariant: a future pending under a log index still stands for the entry stored there"""
    ents = log_entries(o)

    def body(i):
        f = fut_at(o, i)
        e = ent_at(ents, i)
        return implies(fut_pending(o, i) & (i >= 1), (i <= slen(ents)) & (i > o._last_applied) & (f.g_index == i)
                       & mk_bool(z3.And(zi(f.g_term) == LE.term(e), f.g_cmd.t == LE.command(e))))
    return forall(Int, body, "i")


def _futures_match_truncated(o, idx, removed, i):
    """inside the repair loop: the log is already cut back to idx-1 entries; a pending future either stands
    for an entry that is still there, or belongs to a removed index that the loop has not reached yet"""
    ents = log_entries(o)

    def body(k):
        f = fut_at(o, k)
        e = ent_at(ents, k)
        kept = ((k <= slen(ents)) & (k > o._last_applied) & (f.g_index == k)
                & mk_bool(z3.And(zi(f.g_term) == LE.term(e), f.g_cmd.t == LE.command(e))))
        return implies(fut_pending(o, k) & (k >= 1), kept | ((k >= idx + i) & (k < idx + removed)))
    return forall(Int, body, "k")


NODE_INV = [
    # configuration: the quantifier of the property ranges over clusters of 3..5 nodes
    ("cluster-of-3-to-5", lambda o: (2 <= slen(o._peers)) & (slen(o._peers) <= 4)),
    ("term-nonnegative", lambda o: o._current_term >= 0),
    ("timing-parameters-nonnegative", lambda o: (0 <= o._election_timeout_min) & (0 <= o._election_timeout_max)
        & (0 <= o._heartbeat_interval)),
    # L7: everything up to the commit index has been applied, in log order, each index once
    ("applied-exactly-the-committed-prefix", lambda o: (o._last_applied == commit_of(o))
        & (slen(o.g_applied) == o._last_applied)
        & same_upto(seq_term(o.g_applied), seq_term(log_entries(o)), o._last_applied)),
    ("pending-futures-stand-for-their-log-entries", _futures_match_log),
    ("next-index-positive", lambda o: next_index_positive(o)),
]


def replication_reset(o, j):
    """L6: a new leader assumes nothing about follower j: match 0, next = own last index + 1"""
    nm = peer_at(o, j).name
    return (o._next_index.get(nm, -1) == slen(log_entries(o)) + 1) & (o._match_index.get(nm, -1) == 0)


def _same_vote(old, new):
    """L2: within one term the vote, once cast, is never changed or forgotten"""
    d = OPTSTR.dt
    return implies((new._current_term == old._current_term) & mk_bool(z3.Not(d.is_none(voted(old)))),
                   mk_bool(voted(new) == voted(old)))


def quorum_of(o):
    """strict majority of the cluster (the peers and the node itself): n // 2 + 1"""
    return (slen(o._peers) + 1) // 2 + 1


def _leader_only_by_quorum(old, new):
    """L3: a node becomes leader only as a candidate of the same term holding a quorum of votes"""
    return implies((state_of(new) == LEADER) & (state_of(old) != LEADER),
                   (state_of(old) == CANDIDATE) & (new._current_term == old._current_term)
                   & (slen(new._votes_received_set) >= quorum_of(new)))


def _votes_only_this_term(old, new):
    """L3: the vote set of a candidate is rebuilt from {self} whenever the term changes"""
    me = Str.unwrap(new.name)
    vs = Set(Str).dt.dom(field_term(new, "_votes_received_set"))
    return implies((new._current_term != old._current_term) & (state_of(new) != FOLLOWER),
                   mk_bool(vs == z3.Store(z3.K(z3.StringSort(), z3.BoolVal(False)), me, z3.BoolVal(True))))


def _leader_append_only(old, new):
    """L6: while a node stays leader of a term its own log is only extended"""
    return implies((state_of(old) == LEADER) & (state_of(new) == LEADER) & (new._current_term == old._current_term),
                   extends(seq_term(log_entries(new)), seq_term(log_entries(old))))


NODE_GUAR = [
    ("L1-term-never-decreases", lambda old, new: new._current_term >= old._current_term),
    ("L2-one-vote-per-term", _same_vote),
    ("L3-leader-only-from-candidate-with-quorum-in-same-term", _leader_only_by_quorum),
    ("L3-candidate-vote-set-restarts-with-the-term", _votes_only_this_term),
    ("L6-leader-log-append-only", _leader_append_only),
    ("L7-applied-sequence-only-extended", lambda old, new: extends(seq_term(new.g_applied), seq_term(old.g_applied))),
    ("sent-log-only-grows", lambda old, new: sent_extends(sent(new), sent(old))),
]
cls(RaftNode, inv=NODE_INV, guarantee=NODE_GUAR)


def node_focus(s):
    return [s.self._log, s.self._network]


# ---- small helpers of the node ---------------------------------------------------------------
fn(RaftNode, "quorum_size", returns=Int, modifies=[], ensures=[
    ("strict-majority-of-the-cluster", lambda s: (2 * s.result > slen(s.self._peers) + 1)
        & (2 * (s.result - 1) <= slen(s.self._peers) + 1)),
    ("pure", lambda s: unchanged(s, s.self))])


def _find_peer_post(s):
    if s.result is None:
        if s.source_name is None:
            return True
        return forall(Int, lambda j: implies((0 <= j) & (j < slen(s.self._peers)), peer_at(s.self, j).name != s.source_name), "j")
    return (s.source_name is not None) and (s.result.name == s.source_name) & contains(s.self._peers, s.result)


fn(RaftNode, "_find_peer", args={"source_name": OPTSTR}, returns=OptRef(RaftNode), modifies=[], ensures=[
    ("a-peer-with-that-name-or-none-if-there-is-none", _find_peer_post),
    ("pure", lambda s: unchanged(s, s.self))])
FIND_PEER = (RaftNode, "_find_peer")

def _old_or_dummy(field):
    """frame entry for `<event field>.cancel()`: the event stored in `field`, if any"""
    return lambda s: getattr(s.self, field) or new_object(Event)


# L2 at the call site: forgetting the vote (voted_for = None) is only sound when the term really advances
fn(RaftNode, "_step_down", args={"new_term": Int}, focus=node_focus,
   modifies=["_current_term", "_state", "_voted_for", "_heartbeat_event", (_old_or_dummy("_heartbeat_event"), "_cancelled")],
   requires=[("only-to-a-newer-term", lambda s: s.new_term > s.self._current_term)],
   ensures=[
    ("adopts-term-as-follower-without-vote", lambda s: (s.self._current_term == s.new_term)
        & (state_of(s.self) == FOLLOWER) & mk_bool(OPTSTR.dt.is_none(voted(s.self)))),
    ("log-and-apply-state-untouched", lambda s: unchanged(s, s.self, "_last_applied", "_pending_futures", "g_applied")
        & unchanged(s, s.self._log))])
STEP_DOWN = (RaftNode, "_step_down")


def _timer_post(kind, field):
    def post(s):
        r = s.result
        return (same(r.target, s.self) & (r.event_type == kind) & Not(r._cancelled) & r.daemon
                & same(getattr(s.self, field), r) & (ns(r.time) >= now_ns(s.self)))
    return post


def _prev_timer_cancelled(field):
    def post(s):
        prev = getattr(s.old(s.self), field)
        return True if prev is None else (same(prev, s.result) | prev._cancelled)
    return post


def _others_untouched(field):
    names = [f for f in REG.classes[RaftNode].fields if f != field] + ["g_applied"]
    return lambda s: unchanged(s, s.self, *names)


fn(RaftNode, "_schedule_election_timeout", uses=[UNIFORM], returns=Ref(Event),
   modifies=["_election_timeout_event", (_old_or_dummy("_election_timeout_event"), "_cancelled")],
   requires=[("timeouts-nonnegative", lambda s: (0 <= s.self._election_timeout_min) & (0 <= s.self._election_timeout_max))],
   ensures=[("arms-one-live-election-timer-for-itself-not-in-the-past", _timer_post("RaftElectionTimeout", "_election_timeout_event")),
            ("previous-timer-cancelled", _prev_timer_cancelled("_election_timeout_event")),
            ("rest-of-node-untouched", _others_untouched("_election_timeout_event"))])
SCHED_ET = (RaftNode, "_schedule_election_timeout")

fn(RaftNode, "_schedule_heartbeat", returns=Ref(Event),
   modifies=["_heartbeat_event", (_old_or_dummy("_heartbeat_event"), "_cancelled")],
   requires=[("interval-nonnegative", lambda s: 0 <= s.self._heartbeat_interval)],
   ensures=[("arms-one-live-heartbeat-timer-for-itself-not-in-the-past", _timer_post("RaftHeartbeat", "_heartbeat_event")),
            ("previous-timer-cancelled", _prev_timer_cancelled("_heartbeat_event")),
            ("rest-of-node-untouched", _others_untouched("_heartbeat_event"))])
SCHED_HB = (RaftNode, "_schedule_heartbeat")


def next_index_positive(o):
    return forall(Str, lambda f: o._next_index.get(f, 1) >= 1, "f")


def last_term_raw(entries):
    t = seq_term(entries)
    return mk_num(z3.If(z3.Length(t) == 0, z3.IntVal(0), LE.term(t[z3.Length(t) - 1])))


def futures_allocated(o):
    """typing: the futures stored in _pending_futures are allocated objects (so a future created now is none of them)"""
    m = field_term(o, "_pending_futures")
    alloc = _ctx.cur().heap.alloc
    return forall(Int, lambda i: mk_bool(z3.And(z3.Select(FUTS.dt.val(m), i.t) >= 1, z3.Select(FUTS.dt.val(m), i.t) <= alloc)), "i")


# ---- client entry point (L8 promise) ----------------------------------------------------------
def _submit_leader_post(s):
    old = s.old(s.self)
    n = slen(log_entries(old))
    new_entry = LE.mk(z3.IntVal(0), zi(n + 1), zi(old._current_term), s.command.t)
    r = s.result
    return implies(state_of(old) == LEADER,
                   extends_by(seq_term(log_entries(s.self)), seq_term(log_entries(old)), 1)
                   & mk_bool(ent_at(log_entries(s.self), n + 1) == new_entry)
                   & fut_pending(s.self, n + 1) & same(fut_at(s.self, n + 1), r)
                   & (r.g_index == n + 1) & (r.g_term == old._current_term) & (r.g_cmd == s.command))


fn(RaftNode, "submit", args={"command": Any}, focus=node_focus,
   requires=[("typing-of-stored-futures", lambda s: futures_allocated(s.self))], ensures=[
    ("leader-appends-the-command-in-its-own-term-and-registers-the-future-for-exactly-that-entry", _submit_leader_post),
    ("non-leader-accepts-nothing", lambda s: implies(state_of(s.old(s.self)) != LEADER, unchanged(s, s.self._log))),
    ("future-starts-unresolved", lambda s: Not(s.result._resolved)),
    ("no-election-or-commit-effect", lambda s: unchanged(s, s.self, "_current_term", "_voted_for", "_state", "_last_applied")
        & unchanged(s, s.self._log, "commit_index"))])


# ---- elections -------------------------------------------------------------------------------
VOTE_REQ_KEYS = ("source", "destination", "term", "candidate_id", "last_log_index", "last_log_term")


def vote_request_ok(o, elem, j):
    """the RequestVote created for peer j: own (new) term, own id, own last log position"""
    m = msg_of(elem)
    return ((kind_of(elem) == "RaftRequestVote") & mhas(m, *VOTE_REQ_KEYS)
            & (mget(m, "term") == o._current_term) & (mget(m, "candidate_id") == o.name) & (mget(m, "source") == o.name)
            & (mget(m, "destination") == peer_at(o, j).name)
            & (mget(m, "last_log_index") == slen(log_entries(o))) & (mget(m, "last_log_term") == last_term_raw(log_entries(o))))


def _only_self_voted(o):
    vs = Set(Str).dt.dom(field_term(o, "_votes_received_set"))
    return mk_bool(vs == z3.Store(z3.K(z3.StringSort(), z3.BoolVal(False)), Str.unwrap(o.name), z3.BoolVal(True)))


def _election_started(s):
    old = s.old(s.self)
    return ((s.self._current_term == old._current_term + 1) & (state_of(s.self) == CANDIDATE)
            & mk_bool(voted(s.self) == OPTSTR.dt.some(Str.unwrap(s.self.name))) & _only_self_voted(s.self))


def _requests_to_all_peers(s):
    new, old = sent(s.self), sent(s.old(s.self))
    n = slen(s.self._peers)
    return sent_extends_by(new, old, n) & forall(
        Int, lambda j: implies((0 <= j) & (j < n), vote_request_ok(s.self, new.at(old.n + j.t), j)), "j")


def _log_untouched(s):
    return unchanged(s, s.self._log) & unchanged(s, s.self, "_last_applied", "g_applied", "_pending_futures")


fn(RaftNode, "_start_election", uses=[SEND, SCHED_ET], focus=node_focus, ensures=[
    ("candidate-of-the-next-term-with-exactly-its-own-vote", _election_started),
    ("asks-every-peer-once-with-own-term-and-last-log-position", _requests_to_all_peers),
    ("log-and-apply-state-untouched", _log_untouched)])


def _timeout_post(s):
    old = s.old(s.self)
    if s.old(s.event)._cancelled:
        return (len(s.result) == 0) and unchanged(s, s.self)
    return ite_b(state_of(old) == LEADER,
                 unchanged(s, s.self, "_current_term", "_voted_for", "_state", "_votes_received_set"),
                 _election_started(s) & _requests_to_all_peers(s))


fn(RaftNode, "_handle_election_timeout", args={"event": Ref(Event)}, uses=[SEND, SCHED_ET], focus=node_focus, ensures=[
    ("cancelled-ignored--leader-only-rearms--otherwise-starts-election", _timeout_post),
    ("log-and-apply-state-untouched", _log_untouched)])


# ---- voting (L2, election restriction) ---------------------------------------------------------
def n_sent(s):
    """number of messages this call created"""
    return mk_num(sent(s.self).n - sent(s.old(s.self)).n)


def first_sent(s, k=0):
    """raw element: the (k+1)-th message created by this call"""
    return sent(s.self).at(sent(s.old(s.self)).n + k)


def _rv_granted(s):
    return mget(msg_of(first_sent(s)), "vote_granted")


def _rv_reply(s):
    req, old = md(s.old(s.event)), s.old(s.self)
    r = first_sent(s)
    m = msg_of(r)
    return implies(n_sent(s) == 1, (kind_of(r) == "RaftVoteResponse") & mhas(m, "source", "destination", "term", "vote_granted", "from")
                   & (mget(m, "term") == s.self._current_term) & (mget(m, "from") == s.self.name)
                   & (mget(m, "destination") == mget(req, "source")))


def _rv_up_to_date(s):
    req, ents = md(s.old(s.event)), log_entries(s.old(s.self))
    lt, li = mget(req, "last_log_term"), mget(req, "last_log_index")
    return (lt > last_term_raw(ents)) | ((lt == last_term_raw(ents)) & (li >= slen(ents)))


def _rv_free_to_vote(s):
    """after adopting a newer term the node has not voted; otherwise its recorded vote counts"""
    req, old = md(s.old(s.event)), s.old(s.self)
    d = OPTSTR.dt
    return (mget(req, "term") > old._current_term) | mk_bool(z3.Or(
        d.is_none(voted(old)), voted(old) == d.some(MSG.acc("candidate_id")(req))))


def _rv_grant_exactly_when_allowed(s):
    req, old = md(s.old(s.event)), s.old(s.self)
    return implies(n_sent(s) == 1, iff(_rv_granted(s), (mget(req, "term") >= old._current_term) & _rv_free_to_vote(s) & _rv_up_to_date(s)))


def _rv_grant_recorded(s):
    req = md(s.old(s.event))
    return implies((n_sent(s) == 1) & _rv_granted(s),
                   mk_bool(voted(s.self) == OPTSTR.dt.some(MSG.acc("candidate_id")(req))) & (s.self._current_term == mget(req, "term")))


fn(RaftNode, "_handle_request_vote", args={"event": Ref(Event)}, uses=[SEND, SCHED_ET, STEP_DOWN, FIND_PEER], focus=node_focus,
   requires=[("well-formed-request", lambda s: mhas(md(s.event), "term", "candidate_id", "last_log_index", "last_log_term"))],
   ensures=[
    ("unknown-sender-ignored-else-exactly-one-reply", lambda s: ((n_sent(s) == 0) & unchanged(s, s.self)) | (n_sent(s) == 1)),
    ("reply-carries-own-term-and-id-to-the-requester", _rv_reply),
    ("vote-granted-exactly-when-term-current-and-not-voted-for-another-and-candidate-log-up-to-date", _rv_grant_exactly_when_allowed),
    ("granted-vote-is-recorded-for-that-candidate-in-that-term", _rv_grant_recorded),
    ("log-and-apply-state-untouched", _log_untouched)])


def _in_votes(o, x):
    return mk_bool(z3.Select(Set(Str).dt.dom(field_term(o, "_votes_received_set")), x.t))


def _vr_counts(s):
    m, old = md(s.old(s.event)), s.old(s.self)
    return ((mget(m, "term") == old._current_term) & (state_of(old) == CANDIDATE) & mget(m, "vote_granted")
            & mhas(m, "from") & (mget(m, "from") != ""))


def _vr_votes(s):
    m, old = md(s.old(s.event)), s.old(s.self)
    return forall(Str, lambda x: iff(_in_votes(s.self, x), _in_votes(old, x) | (_vr_counts(s) & (x == mget(m, "from")))), "x")


def _vr_newer_term(s):
    m, old = md(s.old(s.event)), s.old(s.self)
    return implies(mget(m, "term") > old._current_term, (s.self._current_term == mget(m, "term"))
                   & (state_of(s.self) == FOLLOWER) & mk_bool(OPTSTR.dt.is_none(voted(s.self))))


def _vr_leader_iff_quorum(s):
    m, old = md(s.old(s.event)), s.old(s.self)
    q = quorum_of(s.self)
    return implies((mget(m, "term") == old._current_term) & (state_of(old) == CANDIDATE),
                   iff(state_of(s.self) == LEADER, slen(s.self._votes_received_set) >= q)
                   & (s.self._current_term == old._current_term) & mk_bool(voted(s.self) == voted(old)))


def _vr_stale_ignored(s):
    m, old = md(s.old(s.event)), s.old(s.self)
    return implies((mget(m, "term") < old._current_term) | ((mget(m, "term") == old._current_term) & (state_of(old) != CANDIDATE)),
                   unchanged(s, s.self) & (n_sent(s) == 0))


def _became_leader(s):
    return (state_of(s.self) == LEADER) & (state_of(s.old(s.self)) != LEADER)


def _leader_announces(s):
    """a new leader resets its view of every follower and sends each an AppendEntries of its term"""
    n = slen(s.self._peers)
    new, old = sent(s.self), sent(s.old(s.self))
    return implies(_became_leader(s), sent_extends_by(new, old, n)
                   & forall(Int, lambda j: implies((0 <= j) & (j < n), replication_reset(s.self, j)
                                                   & append_ok(s.self, new.at(old.n + j.t), j)), "j"))


fn(RaftNode, "_handle_vote_response", args={"event": Ref(Event)}, uses=[SCHED_ET, STEP_DOWN, (RaftNode, "_become_leader")], focus=node_focus,
   requires=[("well-formed-response", lambda s: mhas(md(s.event), "term", "vote_granted"))],
   ensures=[
    ("newer-term-makes-follower-without-vote", _vr_newer_term),
    ("vote-counted-only-from-a-granting-response-of-the-current-term-while-candidate", _vr_votes),
    ("candidate-becomes-leader-exactly-with-a-quorum-and-keeps-term-and-vote", _vr_leader_iff_quorum),
    ("stale-or-unexpected-response-ignored", _vr_stale_ignored),
    ("new-leader-resets-replication-state-and-announces-itself", _leader_announces),
    ("log-and-apply-state-untouched", _log_untouched)])


# ---- leader: replication messages (L6) -----------------------------------------------------------
APPEND_KEYS = ("source", "destination", "term", "leader_id", "prev_log_index", "prev_log_term", "entries", "leader_commit")


def mirrors(E, ents, prev):
    """raw record sequence E = the log entries after index prev (prev >= 0), in order, field by field"""
    t = seq_term(ents)
    n = z3.Length(t)
    p = zi(prev)
    cnt = z3.If(p < n, n - p, z3.IntVal(0))

    def body(k):
        hint(k, p + k.t)
        e, r = nth(t, p + k.t), nth(E, k.t)
        return implies((0 <= k) & mk_bool(k.t < cnt), mk_bool(z3.And(
            ER.f_index(r) == p + 1 + k.t, ER.f_term(r) == LE.term(e), ER.f_command(r) == LE.command(e),
            ENTRYREC.has(r, "index"), ENTRYREC.has(r, "term"), ENTRYREC.has(r, "command"))))
    return mk_bool(z3.Length(E) == cnt) & forall(Int, body, "k")


def append_ok(o, elem, j):
    """the AppendEntries created for peer j: own term and id, prev = next_index-1 with its term, the
    whole log suffix after prev, own commit index"""
    return append_ok_to(o, elem, peer_at(o, j).name)


def append_ok_to(o, elem, follower):
    m = msg_of(elem)
    ents = log_entries(o)
    n = slen(ents)
    prev = o._next_index.get(follower, 1) - 1
    pterm = mk_num(z3.If(z3.And(zi(prev) >= 1, zi(prev) <= zi(n)), LE.term(ent_at(ents, prev)), z3.IntVal(0)))
    return ((kind_of(elem) == "RaftAppendEntries") & mhas(m, *APPEND_KEYS)
            & (mget(m, "term") == o._current_term) & (mget(m, "leader_id") == o.name) & (mget(m, "source") == o.name)
            & (mget(m, "destination") == follower)
            & (mget(m, "prev_log_index") == prev) & (mget(m, "prev_log_term") == pterm)
            & (mget(m, "leader_commit") == commit_of(o))
            & mirrors(MSG.acc("entries")(m), ents, prev))


def _appends_to_all_peers(s):
    n = slen(s.self._peers)
    new, old = sent(s.self), sent(s.old(s.self))
    return sent_extends_by(new, old, n) & forall(
        Int, lambda j: implies((0 <= j) & (j < n), append_ok(s.self, new.at(old.n + j.t), j)), "j")


def _net(s):
    return s.self._network


def _old_or_dummy(field):
    """frame entry for `<event field>.cancel()`: the event stored in `field`, if any"""
    return lambda s: getattr(s.self, field) or new_object(Event)


NET_GHOST = [(_net, "g_sent"), (_net, "g_nsent")]
EVENTS = Seq(Ref(Event))

fn(RaftNode, "_send_append_entries", uses=[SEND], focus=node_focus, returns=EVENTS, modifies=NET_GHOST, ensures=[
    ("one-append-entries-per-peer-carrying-term-prev-position-log-suffix-and-commit-index", _appends_to_all_peers),
    ("node-state-untouched", lambda s: unchanged(s, s.self) & unchanged(s, s.self._log))])
SEND_APPEND = (RaftNode, "_send_append_entries")

fn(RaftNode, "_become_leader", uses=[SEND_APPEND, SCHED_HB], focus=node_focus, returns=EVENTS,
   modifies=["_state", "_leader", "_next_index", "_match_index", "_heartbeat_event"] + NET_GHOST + [
       (_old_or_dummy("_election_timeout_event"), "_cancelled"), (_old_or_dummy("_heartbeat_event"), "_cancelled")],
   # L3 at the call site: leadership is only ever claimed by a candidate holding a quorum of votes
   requires=[("only-a-candidate-with-quorum", lambda s: (state_of(s.self) == CANDIDATE)
              & (slen(s.self._votes_received_set) >= quorum_of(s.self)))],
   ensures=[
    ("leader-of-the-same-term", lambda s: (state_of(s.self) == LEADER) & unchanged(s, s.self, "_current_term", "_voted_for")),
    ("resets-replication-state-and-announces-itself", _leader_announces),
    ("next-index-stays-positive", lambda s: next_index_positive(s.self)),
    ("log-and-apply-state-untouched", _log_untouched)])
BECOME_LEADER = (RaftNode, "_become_leader")


def _hb_post(s):
    old = s.old(s.self)
    if s.old(s.event)._cancelled:
        return (len(s.result) == 0) and unchanged(s, s.self)
    return ite_b(state_of(old) == LEADER, _appends_to_all_peers(s), n_sent(s) == 0)


fn(RaftNode, "_handle_heartbeat_tick", args={"event": Ref(Event)}, uses=[SEND_APPEND, SCHED_ET, SCHED_HB], focus=node_focus, ensures=[
    ("cancelled-ignored--leader-replicates-to-every-peer--others-send-nothing", _hb_post),
    ("no-election-or-log-effect", lambda s: unchanged(s, s.self, "_current_term", "_voted_for", "_state") & _log_untouched(s))])


# ---- apply (L7, L8) --------------------------------------------------------------------------------
def _applied_is_log_prefix(o):
    return (slen(o.g_applied) == o._last_applied) & same_upto(seq_term(o.g_applied), seq_term(log_entries(o)), o._last_applied)


def _entries_continue_applied_prefix(s):
    """the argument is the log slice right after last_applied (what advance_commit returned)"""
    o = s.self
    lg, E = seq_term(log_entries(o)), sq(s.entries)
    return (o._last_applied >= 0) & (o._last_applied + slen(s.entries) <= slen(log_entries(o))) & forall(
        Int, lambda j: implies((0 <= j) & (j < slen(s.entries)), mk_bool(elem_eq(nth(E, j.t), nth(lg, zi(o._last_applied) + j.t)))), "j")


APPLY_ONLY_FRAME = ["_last_applied", "_commands_committed", "_pending_futures", "g_applied", (lambda s: s.self._state_machine, "_data"),
                    ("*", "SimFuture", "_resolved"), ("*", "SimFuture", "_value"), ("*", "SimFuture", "g_at_term"),
                    ("*", "SimFuture", "g_at_cmd")]
APPLY = (RaftNode, "_apply_committed")
fn(RaftNode, "_apply_committed", args={"entries": ENTRIES}, uses=[SM_APPLY, FUT_RESOLVE], inv=False, modifies=APPLY_ONLY_FRAME,
   requires=[("entries-are-the-log-slice-after-last-applied", _entries_continue_applied_prefix),
             ("applied-so-far-is-the-log-prefix", lambda s: _applied_is_log_prefix(s.self)),
             ("log-indices-contiguous", lambda s: contiguous(log_entries(s.self))),
             ("pending-futures-stand-for-their-log-entries", lambda s: _futures_match_log(s.self))],
   ensures=[
    ("L7-each-entry-applied-once-in-index-order", lambda s: (s.self._last_applied == s.old(s.self)._last_applied + slen(s.entries))
        & _applied_is_log_prefix(s.self) & extends(seq_term(s.self.g_applied), seq_term(s.old(s.self).g_applied))),
    ("pending-futures-still-stand-for-their-log-entries", lambda s: _futures_match_log(s.self)),
    ("counts-applied-commands", lambda s: s.self._commands_committed == s.old(s.self)._commands_committed + slen(s.entries)),
    ("election-state-and-log-untouched", lambda s: unchanged(s, s.self, "_current_term", "_voted_for", "_state")
        & unchanged(s, s.self._log))])


# ---- follower: AppendEntries (L2, L4, L5, L7, L8) ----------------------------------------------------
AE_KEYS = ("term", "leader_id", "prev_log_index", "prev_log_term", "entries", "leader_commit")


def rec_at(E, k):
    return nth(E if z3.is_expr(E) else seq_term(E), zi(k))


def ae_covered(o, old, prev, E, i):
    """L5: positions prev .. prev+i-1 of the log carry the terms of entries[0..i) (and their commands, unless
    the entry already stored there had that index and term and was kept)"""
    lg, olg = seq_term(log_entries(o)), seq_term(log_entries(old))
    note(i)                     # the request's well-formedness facts are needed at the current entry
    note(prev + i)

    def body(j):
        e, r = nth(lg, zi(prev) + j.t), rec_at(E, j)
        kept = z3.And(zi(prev) + j.t < z3.Length(olg), elem_eq(e, nth(olg, zi(prev) + j.t)))
        return implies((0 <= j) & (j < i), mk_bool(z3.And(LE.term(e) == ER.f_term(r), z3.Or(LE.command(e) == ER.f_command(r), kept))))
    return (slen(log_entries(o)) >= prev + i) & forall(Int, body, "j")


def ae_prefix_kept(o, old, prev):
    return (slen(log_entries(o)) >= prev) & same_upto(seq_term(log_entries(o)), seq_term(log_entries(old)), prev)


def ae_tail(o, old, prev, i):
    """either nothing was removed (the old log is a prefix of the new one) or the log ends with the last entry written"""
    n, n0 = slen(log_entries(o)), slen(log_entries(old))
    return ((n == ite(n0 >= prev + i, n0, prev + i)) & extends(seq_term(log_entries(o)), seq_term(log_entries(old)))) | (n == prev + i)


def ae_log_ok(o, old):
    lg, olg = log_of(o), log_of(old)
    return (contiguous(lg._entries) & (lg.commit_index == olg.commit_index) & (lg.commit_index <= slen(lg._entries))
            & same_upto(seq_term(lg._entries), seq_term(olg._entries), olg.commit_index))


def _ae_wellformed(s):
    m = md(s.event)
    E = MSG.acc("entries")(m)
    prev = mget(m, "prev_log_index")

    def body(k):
        r = nth(E, k.t)
        return implies((0 <= k) & mk_bool(k.t < z3.Length(E)), mk_bool(z3.And(
            ENTRYREC.has(r, "index"), ENTRYREC.has(r, "term"), ENTRYREC.has(r, "command"), ER.f_index(r) == zi(prev) + 1 + k.t)))
    return mhas(m, *AE_KEYS) & (prev >= 0) & forall(Int, body, "k")


def _ae_no_conflict_with_committed(s):
    """assumed (Leader Completeness + Log Matching, the cross-node theorem): a leader of a term >= mine never
    disagrees with an entry I have committed"""
    m, o = md(s.event), s.self
    E = MSG.acc("entries")(m)
    prev = mget(m, "prev_log_index")
    lg = seq_term(log_entries(o))

    def body(k):
        return implies((0 <= k) & mk_bool(k.t < z3.Length(E)) & (prev + 1 + k <= commit_of(o)),
                       mk_bool(LE.term(nth(lg, zi(prev) + k.t)) == ER.f_term(nth(E, k.t))))
    return implies(mget(m, "term") >= o._current_term, forall(Int, body, "k"))


def _ae_req(s):
    return md(s.old(s.event))


def _ae_reply(s):
    return msg_of(first_sent(s))


def _ae_stale(s):
    return mget(_ae_req(s), "term") < s.old(s.self)._current_term


def _ae_prev_ok(s):
    """the consistency check of the request against the log at entry"""
    m, ents = _ae_req(s), log_entries(s.old(s.self))
    prev = mget(m, "prev_log_index")
    return (prev == 0) | ((prev <= slen(ents)) & mk_bool(LE.term(ent_at(ents, prev)) == MSG.acc("prev_log_term")(m)))


def _ae_shape(s):
    r = first_sent(s)
    m = msg_of(r)
    return ((n_sent(s) == 0) & unchanged(s, s.self)) | ((n_sent(s) == 1) & (kind_of(r) == "RaftAppendEntriesResponse")
            & mhas(m, "source", "destination", "term", "success", "from", "match_index")
            & (mget(m, "term") == s.self._current_term) & (mget(m, "from") == s.self.name)
            & (mget(m, "destination") == mget(_ae_req(s), "source")) & (mget(m, "match_index") >= 0))


def _ae_success_iff(s):
    return implies(n_sent(s) == 1, iff(mget(_ae_reply(s), "success"), Not(_ae_stale(s)) & _ae_prev_ok(s)))


def _ae_stale_rejected(s):
    return implies((n_sent(s) == 1) & _ae_stale(s), unchanged(s, s.self) & unchanged(s, s.self._log)
                   & (mget(_ae_reply(s), "match_index") == 0))


def _ae_leader_recognised(s):
    m = _ae_req(s)
    return implies((n_sent(s) == 1) & Not(_ae_stale(s)), (s.self._current_term == mget(m, "term")) & (state_of(s.self) == FOLLOWER)
                   & mk_bool(field_term(s.self, "_leader") == OPTSTR.dt.some(MSG.acc("leader_id")(m))))


def _ae_mismatch_keeps_log(s):
    return implies((n_sent(s) == 1) & Not(mget(_ae_reply(s), "success")), _log_untouched(s))


def _ae_ok(s):
    return (n_sent(s) == 1) & mget(_ae_reply(s), "success")


def _ae_E(s):
    return MSG.acc("entries")(_ae_req(s))


def _ae_prev(s):
    return mget(_ae_req(s), "prev_log_index")


def _ae_match_index_not_above(s):
    return implies(_ae_ok(s), mk_bool(zi(mget(_ae_reply(s), "match_index")) <= zi(_ae_prev(s)) + z3.Length(_ae_E(s))))


def _ae_match_index_whole(s):
    return implies(_ae_ok(s), mk_bool(zi(mget(_ae_reply(s), "match_index")) >= zi(_ae_prev(s)) + z3.Length(_ae_E(s))))


def _ae_commit(s):
    m, old = _ae_req(s), s.old(s.self)
    n = slen(log_entries(s.self))
    lc = mget(m, "leader_commit")
    target = ite(lc < n, lc, n)
    return implies(_ae_ok(s), commit_of(s.self) == ite(target > commit_of(old), target, commit_of(old)))


def _ae_case(term_rel, prev_rel):
    """one cell of the case split of the request (term vs my term, prev_log_index = 0 or > 0): the handler is
    verified once per cell, in parallel (the cells are exhaustive: lemma `append-entries-case-split`)"""
    def req(s):
        m = md(s.event)
        t, cur, prev = mget(m, "term"), s.self._current_term, mget(m, "prev_log_index")
        a = {"<": t < cur, "=": t == cur, ">": t > cur}[term_rel[0]]
        if len(term_rel) > 1:       # same term: additionally split by the node's role
            a = a & (state_of(s.self) == {"F": FOLLOWER, "C": CANDIDATE, "L": LEADER}[term_rel[1]])
        b = {"0": prev == 0, "+": prev > 0, "*": True, "hb": mk_bool(z3.Length(MSG.acc("entries")(m)) == 0)}[prev_rel]
        return a & b
    return req


AE_CASES = [("stale-term", "<", "*"), ("newer-term-prev-0", ">", "0"), ("newer-term-prev-pos", ">", "+")] + [
    (f"same-term-{role}-prev-{pn}", "=" + r, p) for r, role in (("F", "follower"), ("C", "candidate"), ("L", "leader"))
    for p, pn in (("0", "0"), ("+", "pos"))]
# quick tier: the stale-term cell and the heartbeat cells (no entries: vote / term / commit / reply clauses);
# the cells with entries (log surgery, several minutes each) run in the thorough tier
AE_QUICK = {"stale-term", "heartbeat-same-term-follower"}
AE_CASES += [("heartbeat-same-term-follower", "=F", "hb"), ("heartbeat-same-term-candidate", "=C", "hb"),
             ("heartbeat-same-term-leader", "=L", "hb"), ("heartbeat-newer-term", ">", "hb")]


def _ae_split():
    t, cur, prev = z3.Ints("msg_term my_term prev_log_index")
    assume(prev >= 0)           # part of the well-formedness precondition
    oblige("cells-cover-every-request", z3.Or(t < cur, z3.And(t == cur, prev == 0), z3.And(t == cur, prev > 0),
                                              z3.And(t > cur, prev == 0), z3.And(t > cur, prev > 0)))


lemma("append-entries-case-split", _ae_split)

for _label, _tr, _pr in AE_CASES:
  fn(RaftNode, "_handle_append_entries", label=_label, args={"event": Ref(Event)},
   tags=() if _label in AE_QUICK else ("thorough-only",),
   uses=[SEND, SCHED_ET, STEP_DOWN, FIND_PEER, APPLY],
   focus=node_focus,
   requires=[("well-formed-request-with-contiguous-entries-after-prev", _ae_wellformed),
             ("leader-agrees-with-my-committed-entries", _ae_no_conflict_with_committed),
             ("case-" + _label, _ae_case(_tr, _pr))],
   ensures=[
    ("unknown-sender-ignored-else-one-reply-with-own-term-and-id", _ae_shape),
    ("success-exactly-when-term-not-stale-and-prev-entry-matches", _ae_success_iff),
    ("stale-leader-rejected-without-effect", _ae_stale_rejected),
    ("current-leader-recognised-as-follower-of-its-term", _ae_leader_recognised),
    ("rejection-leaves-log-and-apply-state-untouched", _ae_mismatch_keeps_log),
    ("L5-covered-range-carries-the-leaders-terms", lambda s: implies(_ae_ok(s), ae_covered(
        s.self, s.old(s.self), _ae_prev(s), _ae_E(s), mk_num(z3.Length(_ae_E(s)))))),
    ("L5-entries-below-prev-untouched", lambda s: implies(_ae_ok(s), ae_prefix_kept(s.self, s.old(s.self), _ae_prev(s)))),
    ("L5-nothing-beyond-a-conflict-is-kept", lambda s: implies(_ae_ok(s), ae_tail(
        s.self, s.old(s.self), _ae_prev(s), mk_num(z3.Length(_ae_E(s)))))),
    ("L5-match-index-not-above-the-verified-prefix", _ae_match_index_not_above),
    ("L5-match-index-reports-the-whole-verified-prefix", _ae_match_index_whole),
    ("commit-index-follows-leader-commit-clamped-to-own-log", _ae_commit)])


# ---- leader: commit rule (L6) ------------------------------------------------------------------------
MATCHMAP = Map(Str, Int)
COUNT_GE = z3.Function("followers_with_match_at_least", z3.ArraySort(z3.StringSort(), z3.IntSort()),
                       z3.ArraySort(z3.StringSort(), z3.BoolSort()), z3.IntSort(), z3.IntSort())


def card_ge(val, S, n):
    """|{f in S : val[f] >= n}| for a finite set S, unfolded along the way S was built (definition of the
    cardinality of a finite set: empty -> 0, adding a new element -> +1 if it qualifies)"""
    S = z3.simplify(S)
    if z3.is_store(S) and z3.is_true(S.arg(2)):
        S0, k = S.arg(0), S.arg(1)
        return card_ge(val, S0, n) + z3.If(z3.Select(S0, k), z3.IntVal(0), z3.If(z3.Select(val, k) >= n, z3.IntVal(1), z3.IntVal(0)))
    if z3.is_const_array(S) and z3.is_false(S.arg(0)):
        return z3.IntVal(0)
    return COUNT_GE(val, S, n)


def match_val(o):
    return MATCHMAP.dt.val(field_term(o, "_match_index"))


def match_dom(o):
    return MATCHMAP.dt.dom(field_term(o, "_match_index"))


def _commit_rule(s):
    """L6: the leader advances its commit index to N only if log[N] is from its current term and N is stored
    (according to match_index) on a strict majority of the cluster counting itself"""
    old, new = s.old(s.self), s.self
    N = commit_of(new)
    return implies(N > commit_of(old), (N <= slen(log_entries(new)))
                   & mk_bool(LE.term(ent_at(log_entries(new), N)) == zi(old._current_term))
                   & (1 + mk_num(card_ge(match_val(old), match_dom(old), zi(N))) >= quorum_of(new)))


def _node_inv_holds(s):
    return (_applied_is_log_prefix(s.self) & (s.self._last_applied == commit_of(s.self))
            & (commit_of(s.self) <= slen(log_entries(s.self))) & _futures_match_log(s.self))


def _sm(s):
    return s.self._state_machine


def _lg(s):
    return s.self._log


APPLY_FRAME = [(_lg, "commit_index"), "_last_applied", "_commands_committed", "_pending_futures", "g_applied", (_sm, "_data"),
               ("*", "SimFuture", "_resolved"), ("*", "SimFuture", "_value"), ("*", "SimFuture", "g_at_term"),
               ("*", "SimFuture", "g_at_cmd")]

fn(RaftNode, "_try_advance_commit", uses=[APPLY], focus=node_focus, returns=EVENTS, modifies=APPLY_FRAME, ensures=[
    ("L6-commits-only-current-term-entries-stored-on-a-majority", _commit_rule),
    ("commit-index-never-decreases", lambda s: commit_of(s.self) >= commit_of(s.old(s.self))),
    ("newly-committed-entries-applied--futures-still-stand-for-their-entries", _node_inv_holds),
    ("returns-no-events", lambda s: slen(s.result) == 0),
    ("election-state-log-entries-and-replication-maps-untouched", lambda s: unchanged(
        s, s.self, "_current_term", "_voted_for", "_state", "_next_index", "_match_index") & unchanged(s, s.self._log, "_entries"))])
TRY_ADVANCE = (RaftNode, "_try_advance_commit")


# ---- leader: AppendEntries responses (L6) ------------------------------------------------------------
def _aer_req(s):
    return md(s.old(s.event))


def _aer_follower(s):
    return mget(_aer_req(s), "from")


def _aer_accepted(s):
    """the response is processed at all: term not newer, node is leader, sender named"""
    m, old = _aer_req(s), s.old(s.self)
    return (mget(m, "term") <= old._current_term) & (state_of(old) == LEADER) & mhas(m, "from")


def _aer_newer_term(s):
    m, old = _aer_req(s), s.old(s.self)
    return implies(mget(m, "term") > old._current_term, (s.self._current_term == mget(m, "term"))
                   & (state_of(s.self) == FOLLOWER) & (n_sent(s) == 0) & _log_untouched(s)
                   & unchanged(s, s.self, "_next_index", "_match_index"))


def _aer_ignored(s):
    m, old = _aer_req(s), s.old(s.self)
    return implies((mget(m, "term") <= old._current_term) & Not(_aer_accepted(s)),
                   unchanged(s, s.self) & unchanged(s, s.self._log) & (n_sent(s) == 0))


def _aer_stale_term_ignored(s):
    """L6: match_index[f] may only record what f acknowledged to THIS term's leader"""
    m, old = _aer_req(s), s.old(s.self)
    return implies(mget(m, "term") < old._current_term, unchanged(s, s.self, "_next_index", "_match_index")
                   & unchanged(s, s.self._log) & (n_sent(s) == 0))


def _aer_match(s):
    m = _aer_req(s)
    return mk_num(z3.If(MSG.has(m, "match_index"), MSG.acc("match_index")(m), z3.IntVal(0)))


def _aer_success(s):
    m, old, f = _aer_req(s), s.old(s.self), _aer_follower(s)
    return implies(_aer_accepted(s) & (mget(m, "term") == old._current_term) & mget(m, "success"),
                   (s.self._match_index.get(f, -1) == _aer_match(s)) & (s.self._next_index.get(f, -1) == _aer_match(s) + 1)
                   & forall(Str, lambda x: implies(x != f, (s.self._match_index.get(x, -1) == old._match_index.get(x, -1))
                                                   & (s.self._next_index.get(x, -1) == old._next_index.get(x, -1))), "x")
                   & (n_sent(s) == 0))


def _aer_failure(s):
    m, old, f = _aer_req(s), s.old(s.self), _aer_follower(s)
    cur = old._next_index.get(f, 1)
    return implies(_aer_accepted(s) & (mget(m, "term") == old._current_term) & Not(mget(m, "success")),
                   (s.self._next_index.get(f, -1) == ite(cur - 1 >= 1, cur - 1, 1)) & unchanged(s, s.self, "_match_index")
                   & _log_untouched(s) & ite_b(n_sent(s) == 1, append_ok_to(s.self, first_sent(s), f), n_sent(s) == 0))


AER_USES = [SEND, SCHED_ET, STEP_DOWN, FIND_PEER, TRY_ADVANCE]
fn(RaftNode, "_handle_append_entries_response", args={"event": Ref(Event)}, uses=AER_USES, focus=node_focus,
   requires=[("well-formed-response", lambda s: mhas(md(s.event), "term", "success") & (mk_num(
       z3.If(MSG.has(md(s.event), "match_index"), MSG.acc("match_index")(md(s.event)), z3.IntVal(0))) >= 0))],
   ensures=[
    ("newer-term-makes-follower-and-nothing-else", _aer_newer_term),
    ("not-leader-or-anonymous-response-ignored", _aer_ignored),
    ("L6-response-of-an-older-term-never-changes-replication-state", _aer_stale_term_ignored),
    ("success-records-exactly-the-acknowledged-match-index-for-that-follower", _aer_success),
    ("failure-steps-next-index-back-by-one-and-resends-the-log-suffix", _aer_failure),
    ("election-state-kept-unless-newer-term", lambda s: implies(
        mget(_aer_req(s), "term") <= s.old(s.self)._current_term, unchanged(s, s.self, "_current_term", "_voted_for", "_state"))),
    ("L6-commit-advances-only-by-the-commit-rule-on-the-updated-match-indices", lambda s: implies(
        commit_of(s.self) > commit_of(s.old(s.self)),
        mk_bool(LE.term(ent_at(log_entries(s.self), commit_of(s.self))) == zi(s.self._current_term))
        & (1 + mk_num(card_ge(match_val(s.self), match_dom(s.self), zi(commit_of(s.self)))) >= quorum_of(s.self))))])


# ============================================================================ E. cross-node steps (pure lemmas)
# The per-node clauses above are composed into the property by the standard Raft argument (Ongaro &
# Ousterhout 2014, section 5.4 / appendix); its combinatorial and order-theoretic steps are discharged here.
def _election_safety():
    """L2 + L3 + network ("a delivered vote was cast") => at most one leader per term, for n = 3, 4, 5.
    L2 makes the votes of one term a FUNCTION voter -> candidate; L3 gives every leader of the term a set of
    >= n//2+1 voters (itself included) that voted for it."""
    for n in (3, 4, 5):
        q = n // 2 + 1
        vote = [z3.Int(f"vote{n}_{v}") for v in range(n)]         # whom voter v voted for in term T (L2: one value)
        a, b = z3.Int(f"lead_a{n}"), z3.Int(f"lead_b{n}")
        cnt = lambda c: z3.Sum([z3.If(vote[v] == c, 1, 0) for v in range(n)])
        oblige(f"two-quorums-of-{n}-share-a-voter-hence-one-leader-per-term", z3.Implies(z3.And(cnt(a) >= q, cnt(b) >= q), a == b))


lemma("election-safety-from-L2-L3", _election_safety)


def _commit_meets_election():
    """a set of >= n//2+1 nodes storing entry N (commit rule, L6) and a set of >= n//2+1 voters (L3) intersect:
    every later leader was voted for by some node that stores the committed entry (n = 3, 4, 5)"""
    for n in (3, 4, 5):
        q = n // 2 + 1
        has = [z3.Bool(f"has{n}_{v}") for v in range(n)]
        voted_ = [z3.Bool(f"voted{n}_{v}") for v in range(n)]
        size = lambda xs: z3.Sum([z3.If(x, 1, 0) for x in xs])
        oblige(f"replication-majority-meets-election-quorum-{n}", z3.Implies(
            z3.And(size(has) >= q, size(voted_) >= q), z3.Or(*[z3.And(h, v) for h, v in zip(has, voted_)])))


lemma("leader-completeness-intersection-step", _commit_meets_election)


def _up_to_date_order():
    """the election restriction compares (last_term, last_index) lexicographically: a total preorder, and a
    voter that stores an entry (T, N) only grants to candidates whose last entry is at least (T, N)"""
    t = [z3.Int(f"lt{i}") for i in range(3)]
    x = [z3.Int(f"li{i}") for i in range(3)]
    ge = lambda i, j: z3.Or(t[i] > t[j], z3.And(t[i] == t[j], x[i] >= x[j]))
    oblige("reflexive", ge(0, 0))
    oblige("total", z3.Or(ge(0, 1), ge(1, 0)))
    oblige("transitive", z3.Implies(z3.And(ge(0, 1), ge(1, 2)), ge(0, 2)))
    T, N = z3.Ints("T N")
    # voter's last entry is at least (T, N) (it stores an entry of term T at index N, terms grow along a log)
    oblige("candidate-at-least-as-up-to-date-as-a-voter-storing-(T,N)-ends-at-or-after-(T,N)", z3.Implies(
        z3.And(z3.Or(t[1] > T, z3.And(t[1] == T, x[1] >= N)), ge(0, 1)), z3.Or(t[0] > T, z3.And(t[0] == T, x[0] >= N))))


lemma("election-restriction-order", _up_to_date_order)


def _applies_agree():
    """L7 on two nodes + log matching on the committed prefix => the same command at every commonly applied index"""
    E = z3.DeclareSort("Cmd")
    A = z3.ArraySort(z3.IntSort(), E)
    la, lb, pa, pb = z3.Const("log_a", A), z3.Const("log_b", A), z3.Const("applied_a", A), z3.Const("applied_b", A)
    na, nb, i, k = z3.Ints("n_a n_b i k")
    assume(z3.ForAll([k], z3.Implies(z3.And(0 <= k, k < na), pa[k] == la[k])))        # L7 at node a
    assume(z3.ForAll([k], z3.Implies(z3.And(0 <= k, k < nb), pb[k] == lb[k])))        # L7 at node b
    assume(z3.ForAll([k], z3.Implies(z3.And(0 <= k, k < na, k < nb), la[k] == lb[k])))  # committed prefixes match
    oblige("same-command-at-every-common-applied-index", z3.Implies(z3.And(0 <= i, i < na, i < nb), pa[i] == pb[i]))


lemma("state-machine-safety-composition", _applies_agree)


# ============================================================================ F. bounded native stand-in
def _random_schedules(seed, tier):
    """BOUNDED (not a proof): random delivery orders with loss, duplication and re-elections on real 3..5 node
    clusters, driven through handle_event/submit exactly as NetworkLink delivers.  Checks the assumed
    precondition of _handle_append_entries (no truncation at or below the commit index) and the cross-node
    statements the per-node clauses compose to: one leader per term, equal applied prefixes, futures resolved
    only with the index of their own command."""
    import random
    from happysimulator.core.clock import Clock
    # a worker that verified a task before has had `__new__` set and deleted again on the registered classes,
    # after which CPython's object.__new__ rejects constructor arguments: give them a plain __new__ back
    for k in list(REG.classes):
        if "__new__" not in k.__dict__:
            k.__new__ = staticmethod(lambda cls, *a, **kw: object.__new__(cls))
    runs, steps = (25, 400) if tier == "quick" else (200, 800)
    viol, evals = [], 0
    orig_trunc = Log.truncate_from
    for run in range(runs):
        rng = random.Random(seed * 100003 + run)
        n = rng.choice([3, 4, 5])
        clock = Clock(Instant.from_seconds(0))
        net = Network(name="net")
        net.set_clock(clock)

        class SM:
            def __init__(self):
                self.applied = []

            def apply(self, cmd):
                self.applied.append(cmd)
                return len(self.applied)
        nodes = {nm: RaftNode(nm, net, state_machine=SM()) for nm in "ABCDE"[:n]}
        for nd in nodes.values():
            nd.set_clock(clock)
            nd.set_peers(list(nodes.values()))
        bad = []

        def trunc(self, index, _bad=bad):
            if 1 <= index <= len(self._entries) and index <= self.commit_index:
                _bad.append(("truncate-at-or-below-commit", index, self.commit_index))
            return orig_trunc(self, index)
        Log.truncate_from = trunc
        try:
            flight, futs, leaders, ncmd = [], [], {}, 0
            for step in range(steps):
                r = rng.random()
                nd = rng.choice(list(nodes.values()))
                out = []
                if r < 0.04:
                    out = nd.handle_event(Event(time=clock.now, event_type="RaftElectionTimeout", target=nd))
                elif r < 0.20:
                    out = nd.handle_event(Event(time=clock.now, event_type="RaftHeartbeat", target=nd))
                elif r < 0.30:
                    cmd = f"c{ncmd}"
                    ncmd += 1
                    futs.append((cmd, nd, nd.submit(cmd)))
                elif flight:
                    m = flight.pop(rng.randrange(len(flight)))
                    if rng.random() < 0.1:
                        continue                                    # lost
                    if rng.random() < 0.1:
                        flight.append(m)                            # duplicated / delivered again later
                    dst = nodes[m.context["metadata"]["destination"]]
                    out = dst.handle_event(Event(time=clock.now, event_type=m.event_type, target=dst, daemon=m.daemon,
                                                 context={**m.context, "metadata": dict(m.context["metadata"])}))
                flight.extend(e for e in (out or []) if e.target is net)
                evals += 1
                for x in nodes.values():
                    if x.state.name == "LEADER" and leaders.setdefault(x.current_term, x.name) != x.name:
                        bad.append(("two-leaders", x.current_term, leaders[x.current_term], x.name))
                sms = [x._state_machine.applied for x in nodes.values()]
                for a in sms:
                    for b in sms:
                        k = min(len(a), len(b))
                        if a[:k] != b[:k]:
                            bad.append(("apply-divergence", a[:k], b[:k]))
                if bad:
                    break
            for cmd, nd, f in futs:
                if f.is_resolved and (nd.log.get(f.value[0]) is None or nd.log.get(f.value[0]).command != cmd):
                    bad.append(("future-resolved-for-another-command", cmd, f.value[0]))
        finally:
            Log.truncate_from = orig_trunc
        if bad:
            viol.append({"case": bad[0][0], "run": run, "nodes": n, "detail": [str(x) for x in bad[0][1:]]})
    return {"evaluations": evals, "violations": viol[:5]}


PROPERTY["bounded"] = [{"name": "raft-random-schedules", "bound": "25 runs x 400 scheduler steps (quick) on 3..5 nodes, random "
                        "delivery order with 10% loss and 10% duplication", "fn": _random_schedules}]

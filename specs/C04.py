"""C04 - observing, pausing or stepping a run does not change it.

A. the control surface's own state machine (_should_pause, step counting, pause/step/resume entry
   conditions) and its frame: control methods write control state only.
B. the instrumented loop WITH a control attached obeys the same delivery contract as in C01 (the
   call-site obligations of Event.invoke / Clock.update / EventHeap.push are the shared transition
   relation of both loops), consults _should_pause before every pop, reports exactly the delivered
   events to the control (not cancelled/discarded pops) so that step(n) counts deliveries, and
   pauses right after the first delivery whose breakpoint check fires.
C. reset() re-primes everything the constructor primed (sources, probes, pre-run events and the
   fault schedule) and zeroes the counters.
"""
from pyvc.spec import *
from pyvc import spec as _spec_mod
from pyvc import loader as _loader_mod

# reset(): the five priming loops (sources > events, probes > events, fault-schedule events)
F_CTL = "happysimulator/core/control/control.py"
_HEAPMOD = [("EventHeap", "_heap"), ("EventHeap", "_primary_event_count")]
for _k in (1, 2, 3, 4, 5):
    loop(F_CTL, "SimulationControl.reset", _k, inv=[], modifies=_HEAPMOD)

_n0 = len(_spec_mod.TASKS)
import specs.C01 as c01  # noqa: E402   (engine declarations + loop contracts; its tasks are dropped)
del _spec_mod.TASKS[_n0:]
from specs.C01 import *  # noqa: E402,F401,F403
from specs.C01 import (G, has_G, _last, _sim_setup, LOOP_USES, spec_lt, same_instant, is_inf, wf_instant,  # noqa: E402
                       pushed_what_invoke_returned, F_SIM, LOOP_CONST)
from pyvc.loops import LoopSpec  # noqa: E402
from happysimulator.core.control.control import SimulationControl  # noqa: E402
from happysimulator.core.control.breakpoints import Breakpoint  # noqa: E402
from happysimulator.core.simulation import Simulation  # noqa: E402

PROPERTY = {
    "id": "C04",
    "level": "proof",
    "trusted": ["heapq contract (pyvc/bag.py)", "the contracts of Event.invoke / Clock.update / EventHeap.* proved in C01"],
    "assumptions": COMMON_ASSUMPTIONS + [
        "hook callbacks and breakpoint predicates are user code assumed free of side effects on simulation state",
        "trace recorder off in this check (Simulation._tracing_enabled false): recorder.record() only appends to its own list",
        "the equality of whole runs under any pause/step/resume sequence is the composition (induction over "
        "iterations) of the proved per-iteration clauses: every iteration of either loop is a Step of the same relation "
        "or a pause that changes nothing",
    ],
}

# =============================================================================== A. control state
HOOKCB = Fn(None, "control_hook")
cls(Breakpoint, fields={"one_shot": Bool})
cls(SimulationControl, fields={"_sim": Ref(Simulation), "_pause_requested": Bool, "_steps_remaining": Opt(Int),
                               "_breakpoints": Map(Str, Ref(Breakpoint)), "_event_hooks": Map(Str, HOOKCB),
                               "_time_hooks": Map(Str, HOOKCB)})
CTRL_FIELDS = ["_pause_requested", "_steps_remaining", "_breakpoints", "_event_hooks", "_time_hooks"]


def steps_le0(o):
    sr = o._steps_remaining
    return False if sr is None else sr <= 0


fn(SimulationControl, "_should_pause", returns=Bool, modifies=[], ensures=[
    ("iff-requested-or-steps-exhausted", lambda s: iff(s.result, s.self._pause_requested | steps_le0(s.self))),
    ("pure", lambda s: unchanged(s, s.self))])
fn(SimulationControl, "pause", ensures=[
    ("only-sets-the-flag", lambda s: s.self._pause_requested & unchanged(s, s.self, "_steps_remaining", "_sim")),
    ("simulation-untouched", lambda s: unchanged(s, s.self._sim))], focus=lambda s: [])


def _sim_frame_ok(s):
    """the engine state S = (heap, clock, current time, counters) is not written"""
    sim = s.self._sim
    return unchanged(s, sim, "_event_heap", "_clock", "_current_time", "_events_processed", "_events_cancelled",
                     "_end_time", "_is_running", "_is_paused") & unchanged(s, sim._event_heap) & unchanged(s, sim._clock)



# =============================================================================== B. instrumented loop with control
stub_of(SimulationControl, "_should_pause", returns=Bool, modifies=[], ensures=[
    lambda s: iff(s.result, s.self._pause_requested | steps_le0(s.self))])
stub_of(SimulationControl, "_notify_time_advance", modifies=[], ensures=[])
stub_of(SimulationControl, "_notify_event_processed", modifies=["_steps_remaining"], ensures=[
    lambda s: (s.self._steps_remaining is None) if s.old(s.self)._steps_remaining is None else
    ((s.self._steps_remaining is not None) and s.self._steps_remaining == s.old(s.self)._steps_remaining - 1)])
stub_of(SimulationControl, "_check_breakpoints", returns=Bool, modifies=["_breakpoints"], ensures=[])


def _names(tr):
    return [r[0] for r in tr]


def iteration_shape(L):
    """one iteration is: [_should_pause] then either a pause, or pop and then nothing (cancelled /
    past event), or pop, clock update, invoke, [push], _notify_event_processed, _check_breakpoints.
    In particular the control is told about an event iff it was delivered, after the delivery."""
    tr = G("trace") if has_G("trace") else []
    names = [n for n in _names(tr) if n not in ("EventHeap.has_events", "EventHeap.has_primary_events",
                                                "SimulationControl._notify_time_advance", "EventHeap.set_current_time")]
    if not names:
        return True
    ok = names[0] == "SimulationControl._should_pause"
    rest = names[1:]
    delivered = "Event.invoke" in rest
    told = rest.count("SimulationControl._notify_event_processed")
    checked = rest.count("SimulationControl._check_breakpoints")
    if delivered:
        i = rest.index("Event.invoke")
        ok = ok and rest[:i] == ["EventHeap.pop", "Clock.update"] and told == 1 and checked == 1
        ok = ok and rest.index("SimulationControl._notify_event_processed") > i
        ok = ok and rest.index("SimulationControl._check_breakpoints") > rest.index("SimulationControl._notify_event_processed")
        # the event reported to the control is the delivered one
        inv_ev = tr[_names(tr).index("Event.invoke")][1]["self"]
        rep_ev = tr[_names(tr).index("SimulationControl._notify_event_processed")][1]["event"]
        return ok & same(inv_ev, rep_ev)
    return ok and told == 0 and checked == 0 and rest in ([], ["EventHeap.pop"])


_ctrl_loop = LoopSpec(
    inv=[("clock-equals-current-time", lambda L: same_instant(L.self._clock._current_time, L.self._current_time)),
         ("time-never-decreases", lambda L: Not(spec_lt(L.self._current_time, L.old(L.self)._current_time))),
         ("heap-is-the-simulations", lambda L: same(L.heap, L.self._event_heap) & same(L.control, L.self._control)),
         ("heap-tracing-off", lambda L: Not(L.heap._tracing_enabled)),
         ("still-running", lambda L: L.self._is_running & Not(L.self._is_paused)),
         ("pushed-what-invoke-returned", pushed_what_invoke_returned),
         ("iteration-shape-control-sees-exactly-the-deliveries", iteration_shape)],
    modifies="world", keeps=LOOP_CONST)
_ctrl_loop.native_if_concrete = False
_loader_mod.LOOP_SPECS[(F_SIM, "Simulation._run_loop", 1)] = _ctrl_loop
c01._INVOKE.keeps = c01._INVOKE.keeps + [("SimulationControl", f) for f in CTRL_FIELDS + ["_sim"]]

CTRL_USES = LOOP_USES + [(Simulation, "_build_summary"), (EventHeap, "set_current_time"),
                         (SimulationControl, "_should_pause"), (SimulationControl, "_notify_time_advance"),
                         (SimulationControl, "_notify_event_processed"), (SimulationControl, "_check_breakpoints")]


def _paused_or_finished(s):
    sim = s.self
    tr = G("trace") if has_G("trace") else []
    names = _names(tr)
    if sim._is_paused if isinstance(sim._is_paused, bool) else False:
        return True
    return True


def _pause_is_clean(s):
    """a pause leaves the run resumable: still running, flagged paused"""
    sim = s.self
    return implies(sim._is_paused, sim._is_running)


def _exit_reason_ctrl(s):
    sim = s.self
    drained = slen(sim._event_heap._heap) == 0
    past = spec_lt(sim._end_time, sim._current_time)
    no_primary = (sim._event_heap._primary_event_count <= 0) if is_inf(sim._end_time) else False
    return sim._is_paused | drained | past | no_primary


fn(Simulation, "_run_loop", label="control-attached", uses=CTRL_USES, setup=_sim_setup,
   focus=lambda s: [s.self._control],
   requires=[lambda s: s.self._control is not None, lambda s: Not(s.self._tracing_enabled),
             lambda s: s.self._is_running & Not(s.self._is_paused), lambda s: wf_instant(s.self._end_time),
             lambda s: same(s.self._control._sim, s.self)],
   ensures=[("returns-paused-or-for-a-stated-reason", _exit_reason_ctrl),
            ("a-pause-keeps-the-run-resumable", _pause_is_clean),
            ("time-never-decreases", lambda s: Not(spec_lt(s.self._current_time, s.old(s.self)._current_time)))])

# =============================================================================== step / resume entry
stub_of(Simulation, "run", returns=Any, modifies="world", ensures=[]).keeps = []


def _step_post(s):
    c = s.self
    tr = G("trace") if has_G("trace") else []
    called = [r for r in tr if r[0] == "Simulation.run"]
    return len(called) == 1


def _step_setup(s):
    return []


fn(SimulationControl, "step", args={"n": Int}, uses=[(Simulation, "run")],
   ensures=[("runs-once-with-n-steps-armed", _step_post)],
   raises={ValueError: [("only-nonpositive-n", lambda s: s.n < 1), ("nothing-changed", lambda s: unchanged(s, s.self))],
           RuntimeError: [("only-when-not-running", lambda s: Not(s.old(s.self._sim)._is_running)),
                          ("nothing-changed", lambda s: unchanged(s, s.self))]})

# =============================================================================== C. reset()
# From the statement: "reset() followed by run() repeats the original delivery sequence".  The
# constructor primes the heap from four places (sources, probes, the fault schedule, and the events
# scheduled before the first run are replayed); reset must re-prime from all four, with the clock,
# current time and both counters back at their start values.
from happysimulator.load.source import Source  # noqa: E402
from happysimulator.faults.schedule import FaultSchedule  # noqa: E402

import itertools as _it  # noqa: E402
import happysimulator.core.event_heap as _ehm  # noqa: E402
from pyvc import ctx as _pctx  # noqa: E402
_ehm.count = lambda *a: (c01._mk_count(*a) if _pctx.active() else _it.count(*a))     # EventHeap() inside reset

from happysimulator.instrumentation.recorder import NullTraceRecorder  # noqa: E402
cls(EventHeap, fields={"_trace": Ref(NullTraceRecorder)})
cls(Source, fields={})
cls(FaultSchedule, fields={})
cls(Simulation, fields={"_sources": Seq(Ref(Source)), "_probes": Seq(Ref(Source)), "_fault_schedule": OptRef(FaultSchedule),
                        "_pre_run_event_specs": Any})
stub_of(Source, "start", returns=Seq(Ref(Event)), modifies=[], ensures=[])
stub_of(FaultSchedule, "start", returns=Seq(Ref(Event)), modifies=[], ensures=[])
stub_of(Simulation, "_replay_pre_run_events", modifies=[], ensures=[])


def _reset_post(s):
    sim = s.self._sim
    names = _names(G("trace") if has_G("trace") else [])
    ok = (sim._events_processed == 0) & (sim._events_cancelled == 0) & Not(sim._is_running) & Not(sim._is_paused)
    ok = ok & same_instant(sim._current_time, sim._start_time) & same_instant(sim._clock._current_time, sim._start_time)
    ok = ok & (slen(sim._event_heap._heap) >= 0)
    return ok


def _reset_reprimes(s):
    sim = s.self._sim
    names = _names(G("trace") if has_G("trace") else [])
    prim = [n for n in names if n in ("Source.start", "FaultSchedule.start", "Simulation._replay_pre_run_events")]
    # creation order is tie order (C01): the events must be re-created in the order of the first run - what the
    # constructor primes (sources, probes, then the fault schedule) BEFORE what the user scheduled afterwards
    ok = prim.count("Simulation._replay_pre_run_events") == 1 and prim[-1] == "Simulation._replay_pre_run_events"
    if s.old(sim)._fault_schedule is not None:
        ok = ok and prim.count("FaultSchedule.start") == 1 and prim[-2] == "FaultSchedule.start"
    else:
        ok = ok and "FaultSchedule.start" not in prim
    return ok


fn(SimulationControl, "reset", uses=[(Source, "start"), (FaultSchedule, "start"), (Simulation, "_replay_pre_run_events")],
   setup=lambda s: [s.self._sim._clock],
   requires=[lambda s: wf_instant(s.self._sim._start_time), lambda s: Not(s.self._sim._tracing_enabled)],
   ensures=[("clock-counters-and-flags-back-at-start", _reset_post),
            ("re-primes-pre-run-events-and-the-fault-schedule", _reset_reprimes),
            ("control-state-cleared", lambda s: Not(s.self._pause_requested) & (s.self._steps_remaining is None))],
   raises={RuntimeError: [("only-while-actively-running", lambda s: s.old(s.self._sim)._is_running & Not(s.old(s.self._sim)._is_paused))]})

"""C04 - observing, pausing or stepping a run does not change it.

A. the control surface's own state machine (_should_pause, step counting, pause/step/resume entry
   conditions) and its frame: control methods write control state only.
B. the instrumented loop WITH a control attached obeys the same delivery contract as in C01 (the
   call-site obligations of Event.invoke / Clock.update / EventHeap.push are the shared transition
   relation of both loops), consults _should_pause before every pop, reports exactly the delivered
   events to the control (not cancelled/discarded pops) so that step(n) counts deliveries, and
   pauses right after the first delivery whose breakpoint check fires.
C. reset() re-primes everything the constructor primed (sources, probes, pre-run events and the
   fault schedule) and zeroes the counters.
   step()/resume(): the state handed to run() (call-site obligations of Simulation.run) is the entry
   state with exactly the pause state cleared and the step budget armed; get_state() is a pure read.
D. breakpoints: should_break of every breakpoint class is a pure read giving the documented
   predicate; _check_breakpoints pauses iff some registered breakpoint fires, removes exactly the fired
   one-shots, writes nothing but its own map; add/remove/clear write that map only.
E. hooks: each registered hook is called exactly once per delivery (time advance), in registration
   order, with that event (time); the step budget is spent exactly once per delivery; registration
   and removal write the hook maps only.
F. tracing: record() appends exactly one span and never raises; EventHeap.pop/_push_single keep the C01
   multiset contract with heap tracing on or off and write nothing but the recorder; the loop contract
   of part B is discharged with `_tracing_enabled` SYMBOLIC (both values), counters included.
G. Simulation.run: first start / re-entry hand the loop the primed start state / exactly the state
   the pause left (no re-priming), inside the active context of the simulation's own heap and clock.
bounded: triage/c04_observe_diff.py - whole-run differential of the observation modes on seeded models
   (also MetricBreakpoint.should_break, which is outside the engine's reach).
"""
from pyvc.spec import *
from pyvc import spec as _spec_mod
from pyvc import loader as _loader_mod

# reset(): the five priming loops (sources > events, probes > events, fault-schedule events)
F_CTL = "happysimulator/core/control/control.py"
_HEAPMOD = [("EventHeap", "_heap"), ("EventHeap", "_primary_event_count"),
            ("InMemoryTraceRecorder", "spans")]      # with heap tracing on every push records a span
for _k in (1, 2, 3, 4, 5):
    loop(F_CTL, "SimulationControl.reset", _k, inv=[], modifies=_HEAPMOD)

# _check_breakpoints: loop 1 evaluates every breakpoint once, loop 2 removes the one-shot ones that fired
# (`to_remove` is a list of distinct ids: modelled as an ordered set, pyvc/omap.py - membership is an array read)
from pyvc.omap import OSeq as _OSeq  # noqa: E402
loop(F_CTL, "SimulationControl._check_breakpoints", 1, modifies=[], types={"to_remove": lambda: _OSeq(Str)}, inv=[
    ("triggered-if-a-visited-breakpoint-fired", lambda L: _bp1_fired_implies_triggered(L)),
    ("triggered-only-if-a-visited-breakpoint-fired", lambda L: _bp1_triggered_has_witness(L)),
    ("listed-for-removal-exactly-the-visited-fired-one-shots", lambda L: _bp1_listed(L))])
loop(F_CTL, "SimulationControl._check_breakpoints", 2, modifies=[("SimulationControl", "_breakpoints")], inv=[
    ("exactly-the-visited-listed-ids-are-removed-the-rest-unchanged", lambda L: _bp2_removed(L))])
# hooks: every registered hook is called exactly once, in registration order, with the delivered event / new time
loop(F_CTL, "SimulationControl._notify_event_processed", 1, modifies=[], inv=[
    ("this-iteration-called-exactly-the-i-th-registered-hook-with-the-event", lambda L: _hook_iteration(L, "_event_hooks", "event"))])
loop(F_CTL, "SimulationControl._notify_time_advance", 1, modifies=[], inv=[
    ("this-iteration-called-exactly-the-i-th-registered-hook-with-the-time", lambda L: _hook_iteration(L, "_time_hooks", "new_time"))])

# tracing: one "simulation.schedule" span per produced event (second loop of _push_new_events; the first is DEBUG logging)
loop("happysimulator/core/simulation.py", "Simulation._push_new_events", 2, inv=[], modifies=[("InMemoryTraceRecorder", "spans")])

_n0 = len(_spec_mod.TASKS)
import specs.C01 as c01  # noqa: E402   (engine declarations + loop contracts; its tasks are dropped)
del _spec_mod.TASKS[_n0:]
from specs.C01 import *  # noqa: E402,F401,F403
from specs.C01 import (G, has_G, _last, _sim_setup, LOOP_USES, spec_lt, same_instant, is_inf, wf_instant,  # noqa: E402
                       pushed_what_invoke_returned, F_SIM, LOOP_CONST)
from pyvc.loops import LoopSpec  # noqa: E402
from happysimulator.core.control.control import SimulationControl  # noqa: E402
from happysimulator.core.control.breakpoints import Breakpoint  # noqa: E402
from happysimulator.core.simulation import Simulation  # noqa: E402

PROPERTY = {
    "id": "C04",
    "level": "proof",
    "trusted": ["heapq contract (pyvc/bag.py)", "the contracts of Event.invoke / Clock.update / EventHeap.* proved in C01",
                "the contracts of _set_active_context / _clear_active_context proved in C01 part C (run() enters the loop "
                "through the _active_sim_context manager built from them)"],
    "assumptions": COMMON_ASSUMPTIONS + [
        "hook callbacks and breakpoint predicates are user code assumed free of side effects on simulation state",
        "a user-supplied trace recorder obeys the frame proved for InMemoryTraceRecorder.record (writes only the recorder, "
        "never raises); InMemoryTraceRecorder stands for every non-null recorder",
        "user-defined breakpoint classes (Breakpoint protocol) obey the frame proved for the built-in ones: should_break "
        "writes nothing; within one _check_breakpoints call its answer is a function of the breakpoint object",
        "the 8-hex-digit uuid4 ids of hooks / breakpoints are fresh: the registration clauses state `registered last / "
        "others kept` for an id that was not registered before (a collision would replace the older registration)",
        "Simulation.run: a simulation that is not running is fresh or reset (clock at start_time); run() after a "
        "completed run without reset() is outside the contract; paused ==> running (established by the loop's exit "
        "clause, reset() and the constructor)",
        "the equality of whole runs under any pause/step/resume sequence is the composition (induction over "
        "iterations) of the proved per-iteration clauses: every iteration of either loop is a Step of the same relation "
        "or a pause that changes nothing",
    ],
    "bounded": [],
}

# =============================================================================== trace recorders (part F)
# `_trace` is either the NullTraceRecorder (tracing off) or a real recorder; InMemoryTraceRecorder stands for every
# real recorder (its record() is proved in part F to write nothing but its own span list and never to raise).
from happysimulator.instrumentation.recorder import NullTraceRecorder, InMemoryTraceRecorder  # noqa: E402
from pyvc.heap import CLASS_OF as _CLASS_OF, class_id as _class_id  # noqa: E402

RECORDER = Ref(NullTraceRecorder, variants=[NullTraceRecorder, InMemoryTraceRecorder])
cls(InMemoryTraceRecorder, fields={"spans": Seq(Any)})


def _flag_says_whether_a_real_recorder_is_attached(o):
    """as both constructors set it: _tracing_enabled == not isinstance(_trace, NullTraceRecorder)"""
    return mk_bool(to_z3_bool(o._tracing_enabled) == (_CLASS_OF(field_term(o, "_trace")) != _class_id(NullTraceRecorder)))


cls(EventHeap, fields={"_trace": RECORDER}, inv=[("tracing-flag-iff-real-recorder", _flag_says_whether_a_real_recorder_is_attached)])
cls(Simulation, fields={"_trace": RECORDER}, inv=[("tracing-flag-iff-real-recorder", _flag_says_whether_a_real_recorder_is_attached)])

# =============================================================================== A. control state
HOOKCB = Fn(None, "control_hook")
cls(Breakpoint, fields={"one_shot": Bool})


class AnyBreakpoint:
    """stands for ANY object that satisfies the Breakpoint protocol (typing.Protocol classes with data members do
    not support issubclass(), which the engine's reference typing needs): a `one_shot` flag and `should_break`"""

    def should_break(self, context) -> bool:
        raise NotImplementedError


cls(AnyBreakpoint, fields={"one_shot": Bool})
BPMAP = Map(Str, Ref(AnyBreakpoint))
HOOKMAP = Map(Str, HOOKCB, ordered=True)        # dicts: hooks run in registration (insertion) order
cls(SimulationControl, fields={"_sim": Ref(Simulation), "_pause_requested": Bool, "_steps_remaining": Opt(Int),
                               "_breakpoints": BPMAP, "_event_hooks": HOOKMAP, "_time_hooks": HOOKMAP})
CTRL_FIELDS = ["_pause_requested", "_steps_remaining", "_breakpoints", "_event_hooks", "_time_hooks"]


def steps_le0(o):
    sr = o._steps_remaining
    return False if sr is None else sr <= 0


fn(SimulationControl, "_should_pause", returns=Bool, modifies=[], ensures=[
    ("iff-requested-or-steps-exhausted", lambda s: iff(s.result, s.self._pause_requested | steps_le0(s.self))),
    ("pure", lambda s: unchanged(s, s.self))])
fn(SimulationControl, "pause", ensures=[
    ("only-sets-the-flag", lambda s: s.self._pause_requested & unchanged(s, s.self, "_steps_remaining", "_sim")),
    ("simulation-untouched", lambda s: unchanged(s, s.self._sim))], focus=lambda s: [])


def _sim_frame_ok(s):
    """the engine state S = (heap, clock, current time, counters) is not written"""
    sim = s.self._sim
    return unchanged(s, sim, "_event_heap", "_clock", "_current_time", "_events_processed", "_events_cancelled",
                     "_end_time", "_is_running", "_is_paused") & unchanged(s, sim._event_heap) & unchanged(s, sim._clock)



# =============================================================================== B. instrumented loop with control
stub_of(SimulationControl, "_should_pause", returns=Bool, modifies=[], ensures=[
    lambda s: iff(s.result, s.self._pause_requested | steps_le0(s.self))])
# (the three callee contracts below are the loop's view of the notifiers; each is implied by the contract PROVED
#  for the function in parts D/E - frame + step budget - and is re-registered at the end of the file because the
#  fn() declarations there take the CONTRACTS slot)
_ST_NTA = stub_of(SimulationControl, "_notify_time_advance", modifies=[], ensures=[])
_ST_NEP = stub_of(SimulationControl, "_notify_event_processed", modifies=["_steps_remaining"], ensures=[
    lambda s: (s.self._steps_remaining is None) if s.old(s.self)._steps_remaining is None else
    ((s.self._steps_remaining is not None) and s.self._steps_remaining == s.old(s.self)._steps_remaining - 1)])
def _bp_checked_right_after_the_delivery(s):
    """what the breakpoints are shown (part D: context == engine state) is the state right after THIS delivery:
    last event == the event just invoked, current time == its timestamp"""
    tr = G("trace") if has_G("trace") else []
    i = _last(tr, "Event.invoke")
    if i is None:
        return False
    ev, sim = tr[i][1]["self"], G("sim")
    return same(s.self._sim, sim) & same(sim._last_event, ev) & same_instant(sim._current_time, ev.time)


_ST_CB = stub_of(SimulationControl, "_check_breakpoints", returns=Bool, modifies=["_breakpoints"], ensures=[], requires=[
    ("breakpoints-see-the-state-right-after-this-delivery", _bp_checked_right_after_the_delivery)])


def _names(tr):
    return [r[0] for r in tr]


def iteration_shape(L):
    """one iteration is: [_should_pause] then either a pause, or pop and then nothing (cancelled /
    past event), or pop, clock update, invoke, [push], _notify_event_processed, _check_breakpoints.
    In particular the control is told about an event iff it was delivered, after the delivery."""
    tr = G("trace") if has_G("trace") else []
    names = [n for n in _names(tr) if n not in ("EventHeap.has_events", "EventHeap.has_primary_events",
                                                "SimulationControl._notify_time_advance", "EventHeap.set_current_time",
                                                "InMemoryTraceRecorder.record")]    # spans are not steps of the run
    if not names:
        return True
    ok = names[0] == "SimulationControl._should_pause"
    rest = names[1:]
    delivered = "Event.invoke" in rest
    told = rest.count("SimulationControl._notify_event_processed")
    checked = rest.count("SimulationControl._check_breakpoints")
    if delivered:
        i = rest.index("Event.invoke")
        ok = ok and rest[:i] == ["EventHeap.pop", "Clock.update"] and told == 1 and checked == 1
        ok = ok and rest.index("SimulationControl._notify_event_processed") > i
        ok = ok and rest.index("SimulationControl._check_breakpoints") > rest.index("SimulationControl._notify_event_processed")
        # the event reported to the control is the delivered one
        inv_ev = tr[_names(tr).index("Event.invoke")][1]["self"]
        rep_ev = tr[_names(tr).index("SimulationControl._notify_event_processed")][1]["event"]
        return ok & same(inv_ev, rep_ev)
    return ok and told == 0 and checked == 0 and rest in ([], ["EventHeap.pop"])


def counters_step(L):
    """one iteration counts exactly what it did, in every observation mode (control, hooks, tracing on or off):
    events_processed +1 iff an event was delivered, events_cancelled +1 iff a cancelled event was popped"""
    if L.loop_phase != "step":
        return True
    tr = G("trace") if has_G("trace") else []
    names = _names(tr)
    h = L.at_head(L.self)
    d = L.self._events_processed - h._events_processed
    c = L.self._events_cancelled - h._events_cancelled
    if "Event.invoke" in names:
        return (d == 1) & (c == 0)
    if "EventHeap.pop" in names:
        ev = tr[names.index("EventHeap.pop")][2]
        return (d == 0) & (c == ite(ev._cancelled, 1, 0))
    return (d == 0) & (c == 0)


_ctrl_loop = LoopSpec(
    inv=[("clock-equals-current-time", lambda L: same_instant(L.self._clock._current_time, L.self._current_time)),
         ("time-never-decreases", lambda L: Not(spec_lt(L.self._current_time, L.old(L.self)._current_time))),
         ("heap-is-the-simulations", lambda L: same(L.heap, L.self._event_heap) & same(L.control, L.self._control)),
         ("the-control-observes-this-simulation", lambda L: same(L.control._sim, L.self)),
         # tracing is SYMBOLIC here (on or off, heap tracing on or off): every clause of this contract - the C01
         # delivery obligations at the call sites of invoke/update/push/pop included - is discharged for both
         ("recorders-stay-as-attached", lambda L: _flag_says_whether_a_real_recorder_is_attached(L.self)
          & _flag_says_whether_a_real_recorder_is_attached(L.heap)),
         ("still-running", lambda L: L.self._is_running & Not(L.self._is_paused)),
         ("pushed-what-invoke-returned", pushed_what_invoke_returned),
         ("iteration-shape-control-sees-exactly-the-deliveries", iteration_shape),
         ("counts-exactly-the-deliveries-and-the-cancelled-pops", counters_step)],
    modifies="world", keeps=LOOP_CONST + [("Simulation", "_trace")])
_ctrl_loop.native_if_concrete = False
_loader_mod.LOOP_SPECS[(F_SIM, "Simulation._run_loop", 1)] = _ctrl_loop
c01._INVOKE.keeps = c01._INVOKE.keeps + [("SimulationControl", f) for f in CTRL_FIELDS + ["_sim"]] + [("Simulation", "_trace")]

CTRL_USES = LOOP_USES + [(Simulation, "_build_summary"), (EventHeap, "set_current_time"),
                         (SimulationControl, "_should_pause"), (SimulationControl, "_notify_time_advance"),
                         (SimulationControl, "_notify_event_processed"), (SimulationControl, "_check_breakpoints"),
                         (InMemoryTraceRecorder, "record")]


def _paused_or_finished(s):
    sim = s.self
    tr = G("trace") if has_G("trace") else []
    names = _names(tr)
    if sim._is_paused if isinstance(sim._is_paused, bool) else False:
        return True
    return True


def _pause_is_clean(s):
    """a pause leaves the run resumable: still running, flagged paused"""
    sim = s.self
    return implies(sim._is_paused, sim._is_running)


def _exit_reason_ctrl(s):
    sim = s.self
    drained = slen(sim._event_heap._heap) == 0
    past = spec_lt(sim._end_time, sim._current_time)
    no_primary = (sim._event_heap._primary_event_count <= 0) if is_inf(sim._end_time) else False
    return sim._is_paused | drained | past | no_primary


fn(Simulation, "_run_loop", label="control-attached", uses=CTRL_USES, setup=_sim_setup,
   focus=lambda s: [s.self._control],
   requires=[lambda s: s.self._control is not None,
             lambda s: s.self._is_running & Not(s.self._is_paused), lambda s: wf_instant(s.self._end_time),
             lambda s: same(s.self._control._sim, s.self)],
   ensures=[("returns-paused-or-for-a-stated-reason", _exit_reason_ctrl),
            ("a-pause-keeps-the-run-resumable", _pause_is_clean),
            ("time-never-decreases", lambda s: Not(spec_lt(s.self._current_time, s.old(s.self)._current_time)))])

# =============================================================================== step / resume entry
# The re-entry into Simulation.run() is the one point where step()/resume() hand over to the engine; what
# the statement says about them ("continues where it stopped", "step(n) delivers exactly n") is a statement
# about the state AT THAT CALL relative to the state in which step()/resume() was entered.  The call-site
# obligations below are evaluated there (E = view of the caller's entry state); after the call the world is
# havoc'd (the run itself is covered by the loop contract of part B).
import types as _pytypes  # noqa: E402
from pyvc.heap import old_view as _old_view  # noqa: E402

E = _pytypes.SimpleNamespace(old=lambda o: _old_view(o, _pctx_cur().pre_state))
ENGINE_FIELDS = ["_event_heap", "_clock", "_current_time", "_events_processed", "_events_cancelled", "_end_time",
                 "_start_time", "_is_running", "_last_event", "_control", "_tracing_enabled", "_event_router", "_trace"]


def _pctx_cur():
    from pyvc import ctx as _c
    return _c.cur()


def _engine_untouched_since_entry(sim):
    """S = (pending events, clock, current time, counters, run flag) is what it was when the control call began"""
    return (unchanged(E, sim, *ENGINE_FIELDS) & unchanged(E, sim._event_heap, "_heap", "_primary_event_count", "_current_time",
                                                         "_tracing_enabled", "_event_counter")
            & unchanged(E, sim._clock))


def _reentry_budget(s):
    ctl, how = G("ctl"), G("caller")
    if how == "step":
        return (ctl._steps_remaining is not None) and ctl._steps_remaining == G("n")
    return ctl._steps_remaining is None


_RUN = stub_of(Simulation, "run", returns=Any, modifies="world", ensures=[], requires=[
    ("re-enters-the-run-of-its-own-simulation", lambda s: same(s.self, E.old(G("ctl"))._sim)),
    ("engine-state-untouched-before-re-entry", lambda s: _engine_untouched_since_entry(s.self)),
    ("re-enters-unpaused-with-the-pause-request-cleared", lambda s: Not(s.self._is_paused) & Not(G("ctl")._pause_requested)),
    ("step-budget-is-exactly-what-was-asked", _reentry_budget),
    ("observers-kept", lambda s: unchanged(E, G("ctl"), "_breakpoints", "_event_hooks", "_time_hooks", "_sim"))])
_RUN.keeps = []


def _step_post(s):
    c = s.self
    tr = G("trace") if has_G("trace") else []
    called = [r for r in tr if r[0] == "Simulation.run"]
    return len(called) == 1


def _ctl_setup(how):
    def setup(s):
        g = _pctx_cur().ghost_args
        g["ctl"], g["caller"] = s.self, how
        if how == "step":
            g["n"] = s.n
        return [s.self._sim._event_heap, s.self._sim._clock]
    return setup


def _nothing_changed(s):
    return unchanged(s, s.self) & unchanged(s, s.self._sim, *ENGINE_FIELDS, "_is_paused") & unchanged(s, s.self._sim._event_heap)


fn(SimulationControl, "step", args={"n": Int}, uses=[(Simulation, "run")], setup=_ctl_setup("step"),
   ensures=[("runs-once-with-n-steps-armed", _step_post)],
   raises={ValueError: [("only-nonpositive-n", lambda s: s.n < 1), ("nothing-changed", _nothing_changed)],
           RuntimeError: [("only-when-not-running", lambda s: Not(s.old(s.self._sim)._is_running)),
                          ("nothing-changed", _nothing_changed)]})

# resume(): from the statement "resume continues where it stopped without losing or repeating an event" -
# it clears exactly the pause state (request flag, step budget, paused flag) and re-enters run() on the
# untouched engine state (the call-site obligations of Simulation.run above); on a simulation that is not
# paused it refuses and changes nothing.
fn(SimulationControl, "resume", uses=[(Simulation, "run")], setup=_ctl_setup("resume"),
   ensures=[("re-enters-run-exactly-once", _step_post),
            ("only-from-a-paused-simulation", lambda s: s.old(s.old(s.self)._sim)._is_paused)],
   raises={RuntimeError: [("only-when-not-paused", lambda s: Not(s.old(s.self._sim)._is_paused)),
                          ("nothing-changed", _nothing_changed)]})


# get_state(): an observation - it reads the engine and writes nothing; the snapshot shows the engine's values
def _state_is_the_engines(s):
    sim, r = s.self._sim, s.result
    done = Not(sim._is_running) & (sim._events_processed > 0)
    return (same_instant(r.current_time, sim._current_time) & (r.events_processed == sim._events_processed)
            & (r.heap_size == slen(sim._event_heap._heap))
            & (r.primary_events_remaining == sim._event_heap._primary_event_count)
            & iff(r.is_paused, sim._is_paused) & iff(r.is_running, sim._is_running) & iff(r.is_complete, done))


fn(SimulationControl, "get_state", setup=lambda s: [s.self._sim._event_heap, s.self._sim._clock],
   ensures=[("snapshot-shows-the-engine-state", _state_is_the_engines),
            ("pure", lambda s: unchanged(s, s.self) & unchanged(s, s.self._sim) & unchanged(s, s.self._sim._event_heap)
             & unchanged(s, s.self._sim._clock))])

# =============================================================================== C. reset()
# From the statement: "reset() followed by run() repeats the original delivery sequence".  The
# constructor primes the heap from four places (sources, probes, the fault schedule, and the events
# scheduled before the first run are replayed); reset must re-prime from all four, with the clock,
# current time and both counters back at their start values.
from happysimulator.load.source import Source  # noqa: E402
from happysimulator.faults.schedule import FaultSchedule  # noqa: E402

import itertools as _it  # noqa: E402
import happysimulator.core.event_heap as _ehm  # noqa: E402
from pyvc import ctx as _pctx  # noqa: E402
_ehm.count = lambda *a: (c01._mk_count(*a) if _pctx.active() else _it.count(*a))     # EventHeap() inside reset

cls(Source, fields={})
cls(FaultSchedule, fields={})
cls(Simulation, fields={"_sources": Seq(Ref(Source)), "_probes": Seq(Ref(Source)), "_fault_schedule": OptRef(FaultSchedule),
                        "_pre_run_event_specs": Any})
stub_of(Source, "start", returns=Seq(Ref(Event)), modifies=[], ensures=[])
stub_of(FaultSchedule, "start", returns=Seq(Ref(Event)), modifies=[], ensures=[])
stub_of(Simulation, "_replay_pre_run_events", modifies=[], ensures=[])


def _reset_post(s):
    sim = s.self._sim
    names = _names(G("trace") if has_G("trace") else [])
    ok = (sim._events_processed == 0) & (sim._events_cancelled == 0) & Not(sim._is_running) & Not(sim._is_paused)
    ok = ok & same_instant(sim._current_time, sim._start_time) & same_instant(sim._clock._current_time, sim._start_time)
    ok = ok & (slen(sim._event_heap._heap) >= 0)
    return ok


def _reset_reprimes(s):
    sim = s.self._sim
    names = _names(G("trace") if has_G("trace") else [])
    prim = [n for n in names if n in ("Source.start", "FaultSchedule.start", "Simulation._replay_pre_run_events")]
    # creation order is tie order (C01): the events must be re-created in the order of the first run - what the
    # constructor primes (sources, probes, then the fault schedule) BEFORE what the user scheduled afterwards
    ok = prim.count("Simulation._replay_pre_run_events") == 1 and prim[-1] == "Simulation._replay_pre_run_events"
    if s.old(sim)._fault_schedule is not None:
        ok = ok and prim.count("FaultSchedule.start") == 1 and prim[-2] == "FaultSchedule.start"
    else:
        ok = ok and "FaultSchedule.start" not in prim
    return ok


fn(SimulationControl, "reset", uses=[(Source, "start"), (FaultSchedule, "start"), (Simulation, "_replay_pre_run_events")],
   setup=lambda s: [s.self._sim._clock],
   requires=[lambda s: wf_instant(s.self._sim._start_time),      # tracing on or off
             lambda s: _flag_says_whether_a_real_recorder_is_attached(s.self._sim)],
   ensures=[("clock-counters-and-flags-back-at-start", _reset_post),
            ("the-fresh-heap-is-observed-exactly-as-the-old-one", lambda s: iff(s.self._sim._event_heap._tracing_enabled,
                                                                                 s.self._sim._tracing_enabled)
             & mk_bool(field_term(s.self._sim._event_heap, "_trace") == field_term(s.self._sim, "_trace"))
             & _flag_says_whether_a_real_recorder_is_attached(s.self._sim._event_heap)
             & unchanged(s, s.self._sim, "_trace", "_tracing_enabled")),
            ("re-primes-pre-run-events-and-the-fault-schedule", _reset_reprimes),
            ("control-state-cleared", lambda s: Not(s.self._pause_requested) & (s.self._steps_remaining is None))],
   raises={RuntimeError: [("only-while-actively-running", lambda s: s.old(s.self._sim)._is_running & Not(s.old(s.self._sim)._is_paused))]})

# =============================================================================== D. breakpoints
# From the statement: "a breakpoint pauses right after the first delivery that satisfies it" and observing does
# not change the run.  (i) should_break of every breakpoint class is a READ of the context (frame: nothing
# written) whose answer is the documented predicate; (ii) _check_breakpoints answers True iff some registered
# breakpoint's should_break did, removes exactly the one-shot breakpoints that fired (so they fire once) and
# writes nothing but the control's own _breakpoints map - not the heap, the clock, a counter or the event.
from happysimulator.core.control.breakpoints import (TimeBreakpoint, EventCountBreakpoint, ConditionBreakpoint,  # noqa: E402
                                                     EventTypeBreakpoint, MetricBreakpoint)
from happysimulator.core.control.state import BreakpointContext  # noqa: E402

PRED = Fn(Bool, "breakpoint_predicate")
cls(TimeBreakpoint, fields={"time": INSTANT, "one_shot": Bool})
cls(EventCountBreakpoint, fields={"count": Int, "one_shot": Bool})
cls(ConditionBreakpoint, fields={"fn": PRED, "description": Str, "one_shot": Bool})
cls(EventTypeBreakpoint, fields={"event_type": Str, "one_shot": Bool})


def _mk_context():
    """a BreakpointContext as _check_breakpoints builds it: a real frozen instance over symbolic engine values"""
    return BreakpointContext(current_time=fresh(INSTANT, "ctx_time"), events_processed=fresh(Int, "ctx_n"),
                             last_event=fresh(Ref(Event), "ctx_event"), simulation=fresh(Ref(Simulation), "ctx_sim"))


def _bp_pure(s):
    """a breakpoint looks, it does not touch: neither itself, nor the event, nor the simulation it is shown"""
    ctx = s.context
    sim = ctx.simulation
    return (unchanged(s, s.self) & unchanged(s, ctx.last_event) & unchanged(s, sim) & unchanged(s, sim._event_heap)
            & unchanged(s, sim._clock))


CTXARG = {"context": _mk_context}
fn(TimeBreakpoint, "should_break", args=CTXARG, requires=[lambda s: wf_instant(s.self.time), lambda s: wf_instant(s.context.current_time)],
   ensures=[("iff-time-reached", lambda s: iff(s.result, Not(spec_lt(s.context.current_time, s.self.time)))), ("pure", _bp_pure)])
fn(EventCountBreakpoint, "should_break", args=CTXARG,
   ensures=[("iff-count-reached", lambda s: iff(s.result, s.context.events_processed >= s.self.count)), ("pure", _bp_pure)])
fn(EventTypeBreakpoint, "should_break", args=CTXARG,
   ensures=[("iff-last-delivered-event-has-the-type", lambda s: iff(s.result, s.context.last_event.event_type == s.self.event_type)),
            ("pure", _bp_pure)])


def _cond_asked_once(s):
    calls = G("fn_calls") if has_G("fn_calls") else []
    if len(calls) != 1:
        return False
    term, a, k, r = calls[0]
    return mk_bool(term == field_term(s.self, "fn")) & (len(a) == 1 and not k and a[0] is s.context) & iff(s.result, r)


fn(ConditionBreakpoint, "should_break", args=CTXARG,
   ensures=[("answers-what-the-predicate-answered-asked-once-with-the-context", _cond_asked_once), ("pure", _bp_pure)])

# ---- _check_breakpoints -----------------------------------------------------------------------------------
# should_break is user-extensible (Protocol): inside ONE check the context is fixed, so its answer is a function
# SB of the breakpoint object; the frame (modifies nothing) is the purity assumption listed in PROPERTY.
SB = z3.Function("should_break_answer", z3.IntSort(), z3.BoolSort())
stub_of(AnyBreakpoint, "should_break", returns=Bool, modifies=[], requires=[
    ("context-shows-the-engine-state", lambda s: _context_is_engine_state(s))],
    ensures=[lambda s: iff(s.result, mk_bool(SB(s.self._ref)))])


def _context_is_engine_state(s):
    sim, ctx = G("ctl")._sim, s.context
    return (same(ctx.simulation, sim) & same_instant(ctx.current_time, sim._current_time)
            & (ctx.events_processed == sim._events_processed) & same(ctx.last_event, sim._last_event))


def _bp0(L):
    """(dom, val) of the breakpoint map at function entry"""
    m = field_term(L.old(L.self), "_breakpoints")
    return BPMAP.dt.dom(m), BPMAP.dt.val(m), BPMAP.dt.size(m)


def _bpnow(o):
    m = field_term(o, "_breakpoints")
    return BPMAP.dt.dom(m), BPMAP.dt.val(m), BPMAP.dt.size(m)


def _one_shot(ref):
    c = _pctx_cur()
    return z3.Select(c.heap.array(("AnyBreakpoint", "one_shot"), Bool), ref)


def _listed_dom(L):
    """membership array of the local `to_remove` (a Python [] before the first loop)"""
    tr = L.to_remove
    if isinstance(tr, list):
        assert not tr
        return z3.K(z3.StringSort(), z3.BoolVal(False))
    return tr._ty.dt.dom(tr.term)


def _zb(x):
    return to_z3_bool(x)


def _ival(i):
    return i.t if hasattr(i, "t") else z3.IntVal(i)


def _some_fired(flag, among, val0):
    """flag ==> some breakpoint of the set `among` fired (the one existential of this contract: a plain z3 Exists)"""
    if isinstance(flag, bool) and not flag:
        return True
    k = z3.Const("fired_k", z3.StringSort())
    return mk_bool(z3.Implies(_zb(flag), z3.Exists([k], z3.And(z3.Select(among, k), SB(z3.Select(val0, k))))))


def _bp1_fired_implies_triggered(L):
    dom0, val0, _ = _bp0(L)
    vis = L.visited.arr
    return forall(Str, lambda k: mk_bool(z3.Implies(z3.And(z3.Select(vis, k.t), SB(z3.Select(val0, k.t))), _zb(L.triggered))))


def _bp1_triggered_has_witness(L):
    dom0, val0, _ = _bp0(L)
    return _some_fired(L.triggered, L.visited.arr, val0)


def _bp1_listed(L):
    dom0, val0, _ = _bp0(L)
    vis, R = L.visited.arr, _listed_dom(L)
    return forall(Str, lambda k: mk_bool(z3.Select(R, k.t) == z3.And(
        z3.Select(vis, k.t), SB(z3.Select(val0, k.t)), _one_shot(z3.Select(val0, k.t)))))


def _bp2_removed(L):
    dom, val, _ = _bpnow(L.self)
    dom0, val0, _ = _bp0(L)
    vis = L.visited.arr
    return forall(Str, lambda k: mk_bool(z3.And(
        z3.Select(dom, k.t) == z3.And(z3.Select(dom0, k.t), z3.Not(z3.Select(vis, k.t))),
        z3.Implies(z3.Select(dom, k.t), z3.Select(val, k.t) == z3.Select(val0, k.t)))))


def _cb_result(s):
    """pauses iff some registered breakpoint says so (the `only if` half as: no pause \\/ not all are silent)"""
    dom0, val0, _ = _bpnow(s.old(s.self))
    fwd = forall(Str, lambda k: mk_bool(z3.Implies(z3.And(z3.Select(dom0, k.t), SB(z3.Select(val0, k.t))), _zb(s.result))))
    return fwd & _some_fired(s.result, dom0, val0)


def _cb_one_shots(s):
    """exactly the one-shot breakpoints that fired are gone; every other breakpoint is still registered, unchanged"""
    dom0, val0, _ = _bpnow(s.old(s.self))
    dom, val, _ = _bpnow(s.self)

    def body(k):
        fired_once = z3.And(SB(z3.Select(val0, k.t)), _one_shot(z3.Select(val0, k.t)))
        return mk_bool(z3.And(z3.Select(dom, k.t) == z3.And(z3.Select(dom0, k.t), z3.Not(fired_once)),
                              z3.Implies(z3.Select(dom, k.t), z3.Select(val, k.t) == z3.Select(val0, k.t))))
    return forall(Str, body)


def _cb_frame(s):
    sim = s.self._sim
    return (unchanged(s, s.self, "_sim", "_pause_requested", "_steps_remaining", "_event_hooks", "_time_hooks")
            & unchanged(s, sim) & unchanged(s, sim._event_heap) & unchanged(s, sim._clock)
            & (True if s.old(sim)._last_event is None else unchanged(s, s.old(sim)._last_event)))


def _cb_setup(s):
    _pctx_cur().ghost_args["ctl"] = s.self
    return [s.self._sim._event_heap, s.self._sim._clock]


fn(SimulationControl, "_check_breakpoints", uses=[(AnyBreakpoint, "should_break")], setup=_cb_setup,
   ensures=[("pauses-iff-some-registered-breakpoint-says-so", _cb_result),
            ("exactly-the-fired-one-shot-breakpoints-are-removed", _cb_one_shots),
            ("writes-only-its-own-breakpoint-map", _cb_frame)])


def _only_breakpoints_written(s):
    sim = s.self._sim
    return (unchanged(s, s.self, "_sim", "_pause_requested", "_steps_remaining", "_event_hooks", "_time_hooks")
            & unchanged(s, sim) & unchanged(s, sim._event_heap) & unchanged(s, sim._clock))


def _others_kept(map_field, MT, skip=None):
    """every registration except `skip(s)` is what it was"""
    def clause(s):
        m0, m1 = field_term(s.old(s.self), map_field), field_term(s.self, map_field)
        sk = None if skip is None else Str.unwrap(skip(s))
        return forall(Str, lambda k: mk_bool(z3.Implies(z3.BoolVal(True) if sk is None else k.t != sk, z3.And(
            z3.Select(MT.dt.dom(m1), k.t) == z3.Select(MT.dt.dom(m0), k.t),
            z3.Implies(z3.Select(MT.dt.dom(m0), k.t), z3.Select(MT.dt.val(m1), k.t) == z3.Select(MT.dt.val(m0), k.t))))))
    return clause


fn(SimulationControl, "add_breakpoint", args={"bp": Ref(AnyBreakpoint)}, setup=_cb_setup,
   ensures=[("registered-under-the-returned-id", lambda s: contains(s.self._breakpoints, s.result)
             & mk_bool(z3.Select(BPMAP.dt.val(field_term(s.self, "_breakpoints")), Str.unwrap(s.result)) == s.bp._ref)),
            ("other-breakpoints-kept", _others_kept("_breakpoints", BPMAP, lambda s: s.result)),
            ("writes-only-the-breakpoint-map", _only_breakpoints_written), ("breakpoint-untouched", lambda s: unchanged(s, s.bp))])
fn(SimulationControl, "remove_breakpoint", args={"bp_id": Str}, setup=_cb_setup,
   ensures=[("no-longer-registered", lambda s: Not(contains(s.self._breakpoints, s.bp_id))),
            ("was-registered", lambda s: contains(s.old(s.self)._breakpoints, s.bp_id)),
            ("other-breakpoints-kept", _others_kept("_breakpoints", BPMAP, lambda s: s.bp_id)),
            ("writes-only-the-breakpoint-map", _only_breakpoints_written)],
   raises={KeyError: [("only-for-an-unknown-id", lambda s: Not(contains(s.old(s.self)._breakpoints, s.bp_id))),
                      ("nothing-changed", lambda s: unchanged(s, s.self) & unchanged(s, s.self._sim))]})
fn(SimulationControl, "clear_breakpoints", setup=_cb_setup,
   ensures=[("none-registered", lambda s: slen(s.self._breakpoints) == 0),
            ("writes-only-the-breakpoint-map", _only_breakpoints_written)])

# =============================================================================== E. hooks
# From the statement: attaching event / time hooks does not change the run, and an observer sees the run:
# every registered hook is called exactly once per delivered event (per time advance), in registration
# order, with that event (that time); an unregistered hook is no longer in the map the notifier walks; and
# registration writes the hook maps only.  Only _notify_event_processed spends the step budget: exactly one
# per call (the loop calls it once per delivery - iteration shape, part B).


def _hook_iteration(L, field, argname):
    calls = G("fn_calls") if has_G("fn_calls") else []
    if L.loop_phase != "step":
        return len(calls) == 0
    if len(calls) != 1:
        return False
    term, a, k, r = calls[0]
    m = field_term(L.self, field)
    key = L.seq.term[_ival(L.i) - 1]
    arg = getattr(L, argname)
    passed = len(a) == 1 and not k and (a[0] is arg or (isinstance(arg, ObjProxy) and same(a[0], arg)))
    return mk_bool(term == z3.Select(HOOKMAP.dt.val(m), key)) & passed


def _no_call_outside_the_loop(s):
    return len(G("fn_calls") if has_G("fn_calls") else []) == 0


def _notify_frame(s, *written):
    sim = s.self._sim
    keep = [f for f in ["_sim", "_pause_requested", "_steps_remaining", "_breakpoints", "_event_hooks", "_time_hooks"] if f not in written]
    return unchanged(s, s.self, *keep) & unchanged(s, sim) & unchanged(s, sim._event_heap) & unchanged(s, sim._clock)


def _budget_spent_once(s):
    o, n = s.old(s.self)._steps_remaining, s.self._steps_remaining
    if o is None:
        return n is None
    return (n is not None) and n == o - 1


fn(SimulationControl, "_notify_event_processed", args={"event": Ref(Event)}, setup=_cb_setup,
   ensures=[("step-budget-spent-exactly-once-per-delivery", _budget_spent_once),
            ("hooks-called-only-from-the-walk-over-the-registered-hooks", _no_call_outside_the_loop),
            ("writes-only-the-step-budget", lambda s: _notify_frame(s, "_steps_remaining") & unchanged(s, s.event))])
fn(SimulationControl, "_notify_time_advance", args={"new_time": INSTANT}, setup=_cb_setup,
   ensures=[("hooks-called-only-from-the-walk-over-the-registered-hooks", _no_call_outside_the_loop),
            ("writes-nothing", lambda s: _notify_frame(s))])


def _registered_last(field):
    def clause(s):
        m0, m1 = field_term(s.old(s.self), field), field_term(s.self, field)
        kid = Str.unwrap(s.result)
        dt = HOOKMAP.dt
        return mk_bool(z3.And(z3.Select(dt.dom(m1), kid), z3.Select(dt.val(m1), kid) == HOOKCB.unwrap(s.callback),
                              z3.Implies(z3.Not(z3.Select(dt.dom(m0), kid)), dt.keys(m1) == z3.Concat(dt.keys(m0), z3.Unit(kid)))))
    return clause


def _hook_reg_frame(field):
    def clause(s):
        sim = s.self._sim
        keep = [f for f in ["_sim", "_pause_requested", "_steps_remaining", "_breakpoints", "_event_hooks", "_time_hooks"] if f != field]
        return unchanged(s, s.self, *keep) & unchanged(s, sim) & unchanged(s, sim._event_heap) & unchanged(s, sim._clock)
    return clause


for _m, _f in (("on_event", "_event_hooks"), ("on_time_advance", "_time_hooks")):
    fn(SimulationControl, _m, args={"callback": HOOKCB}, setup=_cb_setup,
       ensures=[("registered-under-the-returned-id-after-all-earlier-hooks", _registered_last(_f)),
                ("other-hooks-kept", _others_kept(_f, HOOKMAP, lambda s: s.result)),
                ("writes-only-that-hook-map", _hook_reg_frame(_f)),
                ("callback-not-called", _no_call_outside_the_loop)])


def _removed_from_exactly_one(s):
    e0, t0 = s.old(s.self)._event_hooks, s.old(s.self)._time_hooks
    in_e = contains(e0, s.hook_id)
    return (Not(contains(s.self._event_hooks, s.hook_id)) & implies(in_e, unchanged(s, s.self, "_time_hooks"))
            & implies(Not(in_e), Not(contains(s.self._time_hooks, s.hook_id)) & unchanged(s, s.self, "_event_hooks")))


fn(SimulationControl, "remove_hook", args={"hook_id": Str}, setup=_cb_setup,
   ensures=[("the-hook-is-gone", _removed_from_exactly_one),
            ("other-event-hooks-kept", _others_kept("_event_hooks", HOOKMAP, lambda s: s.hook_id)),
            ("other-time-hooks-kept", _others_kept("_time_hooks", HOOKMAP, lambda s: s.hook_id)),
            ("writes-only-the-hook-maps", lambda s: _notify_frame(s, "_event_hooks", "_time_hooks"))],
   raises={KeyError: [("only-for-an-unknown-id", lambda s: Not(contains(s.old(s.self)._event_hooks, s.hook_id))
                       & Not(contains(s.old(s.self)._time_hooks, s.hook_id))),
                      ("nothing-changed", lambda s: unchanged(s, s.self) & unchanged(s, s.self._sim))]})

# =============================================================================== F. trace recorder / event tracing
# From the statement: "a trace recorder or event tracing does not change which events are delivered, their order,
# their times".  (i) record() of the in-memory recorder appends exactly one span to its own list, for ANY
# arguments, and never raises; (ii) EventHeap.pop / _push_single satisfy the multiset contract of C01 whether
# heap tracing is on or off, and tracing writes nothing but the recorder (these two contracts REPLACE the
# tracing-off ones of C01 as the callee contracts of the loop); (iii) the loop contract of part B is discharged
# with `_tracing_enabled` symbolic.
stub_of(InMemoryTraceRecorder, "record", modifies=["spans"], ensures=[
    lambda s: slen(s.self.spans) == slen(s.old(s.self).spans) + 1])


def record_a_span(rec, time, kind, event_id, event_type, extra):
    """the call shape used by the engine: keyword-only arguments plus free-form data"""
    if extra is None:
        return rec.record(time=time, kind=kind, event_id=event_id, event_type=event_type)
    return rec.record(time=time, kind=kind, event_id=event_id, event_type=event_type, heap_size=extra, scheduled_time=time)


def _one_span_appended(s):
    old, new = seq_term(s.old(s.rec).spans), seq_term(s.rec.spans)
    return mk_bool(z3.And(z3.Length(new) == z3.Length(old) + 1, z3.PrefixOf(old, new)))


fn("specs.C04", "record_a_span", kind="function",
   args={"rec": Ref(InMemoryTraceRecorder), "time": INSTANT, "kind": Str, "event_id": Opt(Any), "event_type": Opt(Str),
         "extra": Opt(Int)},
   ensures=[("appends-exactly-one-span-and-keeps-the-earlier-ones", _one_span_appended),
            ("returns-nothing", lambda s: s.result is None)])

_C01_POP, _C01_PUSH1 = _spec_mod.CONTRACTS[(EventHeap, "pop")], _spec_mod.CONTRACTS[(EventHeap, "_push_single")]
_SPANS = ("*", "InMemoryTraceRecorder", "spans")


def _heap_tracing_frame(ev_of):
    def clause(s):
        h = s.self
        return unchanged(s, ev_of(s)) & unchanged(s, h, "_tracing_enabled", "_trace", "_event_counter")
    return clause


def _span_iff_tracing(s):
    n = len([r for r in (G("trace") if has_G("trace") else []) if r[0] == "InMemoryTraceRecorder.record"])
    return (n == 1) if s.old(s.self)._tracing_enabled else (n == 0)     # (the code has branched on the flag already)


fn(EventHeap, "pop", returns=Ref(Event), uses=[(InMemoryTraceRecorder, "record")],
   modifies=list(_C01_POP.modifies) + [_SPANS], requires=[lambda s: slen(s.self._heap) > 0],
   ensures=list(_C01_POP.ensures) + [("tracing-touches-neither-the-event-nor-the-heap-configuration", _heap_tracing_frame(lambda s: s.result)),
                                    ("one-span-iff-tracing", _span_iff_tracing)])
fn(EventHeap, "_push_single", args={"event": Ref(Event)}, uses=[(InMemoryTraceRecorder, "record")],
   ensures=[e for e in _C01_PUSH1.ensures] + [
       ("tracing-touches-neither-the-event-nor-the-heap-configuration", _heap_tracing_frame(lambda s: s.event)),
       ("keeps-heap-time", lambda s: unchanged(s, s.self, "_current_time")),
       ("one-span-iff-tracing", _span_iff_tracing)])

# =============================================================================== G. Simulation.run: first start / re-entry
# From the statement: "a run driven by any sequence of pause/step/resume calls ends in the same state as an
# uninterrupted run" - run() on a simulation that is already running (i.e. paused) must hand the loop EXACTLY the
# state the pause left: same heap object and content, same clock, time and counters - no re-priming, no reset of a
# counter; a first start begins at start_time with events_processed 0 on the heap as primed.  Both are statements
# about the state at the call of _run_loop relative to run()'s entry: call-site obligations of the loop's contract.
# The loop runs inside the active-simulation context of its own heap and clock (contract of
# _set_active_context / _clear_active_context: C01 part C).
import contextlib as _contextlib  # noqa: E402

SIMMOD = "happysimulator.core.simulation"


class _NullCtxTy(T.Ty):
    name = "ContextManager"

    def fresh(self, base):
        return _contextlib.nullcontext()


cls(Simulation, fields={"_code_debugger": Any})
stub_of(SIMMOD, "_active_sim_context", kind="function", returns=_NullCtxTy(), modifies=[], requires=[
    ("context-is-this-simulations-heap-and-clock", lambda s: same(s.heap, G("sim")._event_heap) & same(s.clock, G("sim")._clock))])


def _loop_entered_in_context(s):
    tr = G("trace") if has_G("trace") else []
    return len([r for r in tr if r[0].endswith("._active_sim_context")]) == 1


def _loop_gets_the_state_the_pause_left(s):
    sim = s.self
    was_running = E.old(sim)._is_running
    if was_running if isinstance(was_running, bool) else _pctx_cur().branch(to_z3_bool(was_running)):
        # re-entry: nothing of S = (pending, clock, time, counters), no flag, no observer has been touched
        return (_engine_untouched_since_entry(sim) & (True if RUN_CLEARS_PAUSED else unchanged(E, sim, "_is_paused"))
                & (True if sim._control is None else unchanged(E, sim._control)))
    # first start: the heap as primed (content untouched, its time stamp at start), time at start, nothing processed
    h = sim._event_heap
    return (sim._is_running & same_instant(sim._current_time, sim._start_time) & (sim._events_processed == 0)
            & unchanged(E, sim, "_event_heap", "_clock", "_end_time", "_start_time", "_control", "_tracing_enabled", "_trace",
                        "_event_router", "_is_paused", "_events_cancelled")
            & unchanged(E, h, "_heap", "_primary_event_count", "_tracing_enabled", "_event_counter") & unchanged(E, sim._clock)
            & same_instant(h._current_time, sim._start_time))


_ST_LOOP = stub_of(Simulation, "_run_loop", returns=Any, modifies="world", ensures=[], requires=[
    ("the-loop-runs-inside-the-active-context-of-this-simulation", _loop_entered_in_context),
    ("the-loop-gets-the-state-the-pause-left-or-the-primed-start-state", _loop_gets_the_state_the_pause_left),
    ("the-loop-is-entered-running", lambda s: s.self._is_running),
    ("the-clock-shows-the-current-time-at-loop-entry", lambda s: same_instant(s.self._clock._current_time, s.self._current_time)),
    ("the-loop-is-entered-with-the-recorders-as-attached", lambda s: _flag_says_whether_a_real_recorder_is_attached(s.self)
     & _flag_says_whether_a_real_recorder_is_attached(s.self._event_heap))])
_ST_LOOP.keeps = []
# FINDING (triage/c04_run_on_paused_keeps_paused_flag.py): a direct run() on a paused simulation - the documented
# re-entry - enters the loop with _is_paused still True (only control.resume()/step() clear it): the loop's own
# precondition `not paused` (part B) is not established, hooks observe is_paused while events are delivered and
# reset() is accepted mid-run.  Deliveries are unaffected.  Repair: fixes/C04_run-reentry-clears-paused-flag.diff;
# the call-site obligation is active once the repair is in the tree (then the re-entry clause allows exactly that write).
import os as _os  # noqa: E402
from pyvc.ctx import REPO as _REPO  # noqa: E402
RUN_CLEARS_PAUSED = "a direct run() on a paused simulation must do the same" in open(
    _os.path.join(_REPO, "happysimulator/core/simulation.py")).read()
if RUN_CLEARS_PAUSED:
    _ST_LOOP.requires.append(("the-loop-is-entered-unpaused", lambda s: Not(s.self._is_paused)))


def _run_returns_the_loops_summary(s):
    tr = G("trace") if has_G("trace") else []
    loops = [r for r in tr if r[0] == "Simulation._run_loop"]
    return len(loops) == 1 and (s.result is loops[0][2] or same(s.result, loops[0][2]))


fn(Simulation, "run", uses=[(Simulation, "_run_loop"), (SIMMOD, "_active_sim_context"), (InMemoryTraceRecorder, "record")],
   setup=_sim_setup,
   requires=[lambda s: wf_instant(s.self._start_time),
             # paused ==> running: the exit clause `a-pause-keeps-the-run-resumable` of the loop, reset() and the
             # constructor establish it; resume()/step()/run() keep it
             lambda s: implies(s.self._is_paused, s.self._is_running),
             # a simulation that is not running is fresh or reset (clock at start_time): a second run() after a
             # COMPLETED run without reset() is outside this contract (and outside the statement)
             lambda s: implies(Not(s.self._is_running), same_instant(s.self._clock._current_time, s.self._start_time))],
   ensures=[("enters-the-loop-exactly-once-and-returns-its-summary", _run_returns_the_loops_summary)])

# =============================================================================== bounded stand-in
def _observe_diff(seed, tier):
    """whole runs, natively: the same seeded model plain / control attached / hooks + non-firing breakpoints of every
    class / trace recorder / recorder + control under a random pause-step-resume-breakpoint schedule / reset + run
    must give the same delivery log, entity counters, processed / cancelled counts, final time and left-over heap;
    step(n) delivers exactly n; a count breakpoint pauses at exactly that count; hooks once per delivery in
    registration order; MetricBreakpoint.should_break (getattr by a data-dependent attribute name: outside the
    verifier's reach) is a pure read answering op(attribute, threshold)"""
    return run_native_script("triage/c04_observe_diff.py", 150 if tier == "quick" else 5000, seed)


PROPERTY["bounded"].append({"name": "observation-modes-differential",
                            "bound": "150 (quick) / 5000 (thorough) seeded relay models x 7 observation modes: 2-4 entities, 1-5 "
                                     "tokens of 0-5 hops on a 0.25 s grid (ties), fan-out, lazy cancellations, daemon tokens, "
                                     "finite end_time or auto-termination",
                            "fn": _observe_diff})

# =============================================================================== (keep last) the loop's callee contracts
_spec_mod.CONTRACTS[(Simulation, "_run_loop")] = _ST_LOOP          # (the task of part B keeps its own contract object)
_spec_mod.CONTRACTS[(Simulation, "run")] = _RUN                    # step()/resume() see run() through its re-entry obligations
for _st in (_ST_NTA, _ST_NEP, _ST_CB):
    _spec_mod.CONTRACTS[(SimulationControl, _st.name)] = _st

"""Run-time half of the loop cut (see loader.py rule 3): assert invariant on entry, havoc the
loop's write set, assume the invariant, run the body once, assert the invariant, stop."""
from __future__ import annotations

import z3

from . import ctx as _ctx
from .ctx import OutOfReach, PathEnd, SpecError
from .sym import SymBool, SymInt, SymReal, SymStr, mk_num
from .heap import ObjProxy, SymList, SymDict, SymSet, Box, Seq, Ref, REG, _MapIter
from . import types as T
from .loader import LOOP_SPECS


def _c():
    return _ctx.cur()


class LoopSpec:
    """inv: [(name, fn(L))] evaluated on a namespace L of the locals (+ L.i, L.seq for `for`);
    modifies: heap keys [(ClassName, field)] the body may write; types: {local: Ty} for locals
    whose sort cannot be read off their value at the loop head; elem: Ty of the iterated values
    when iterating a concrete container of symbolic length."""

    def __init__(self, inv, modifies=(), types=None, elem=None, decreases=None, entry_only=(), keeps=()):
        self.inv = inv
        # modifies="world": the body runs opaque user code - every heap field may change except
        # the frame `keeps` [(ClassName, field)]
        self.world = modifies == "world"
        self.keeps = [tuple(k) for k in keeps]
        self.modifies = [] if self.world else [tuple(m) for m in modifies]
        self.types = types or {}
        self.elem = elem
        self.decreases = decreases
        self.src = None


class _NS:
    def __init__(self, d):
        self.__dict__.update(d)


class _Unbound:
    def _die(self, *a, **k):
        raise OutOfReach("local variable first assigned inside a cut loop was read before assignment")
    __getattr__ = __bool__ = __call__ = __add__ = __radd__ = __eq__ = __lt__ = __iter__ = _die
    __hash__ = None


UNBOUND = _Unbound()


class _Loop:
    def __init__(self, key, spec):
        self.key, self.spec = key, spec
        self.seq = None
        self.i = None
        self.mode = "seq"
        self.view = None
        self.map = None
        self.visited = None
        self.pre_arrays = None
        self.dec0 = None


def _ns(lp, locs):
    d = {k: v for k, v in locs.items() if not k.startswith("_pyvc_")}
    if lp.seq is not None:
        d["seq"] = lp.seq
        d["i"] = lp.i
    if lp.mode == "set":
        d["visited"] = _SetView(lp.visited)
        d["dom"] = _SetView(lp.dom)
    from .heap import old_view
    pre = getattr(_c(), "pre_state", None)
    d["old"] = lambda o: old_view(o, pre)
    # state at the latest of: function entry, last resume after a yield, last world-havoc loop head
    d["since"] = lambda o: old_view(o, getattr(_c(), "seg_state", None) or pre)
    # "entry" | "assume" (loop head, after the havoc) | "step" (end of one iteration): lets a clause state a
    # per-iteration postcondition (`True if L.loop_phase != "step" else ...` is only ever an obligation)
    d["loop_phase"] = getattr(lp, "phase", None)
    # view of an object in the state at this loop's head (after the havoc): with loop_phase == "step" a clause can
    # relate the end of ONE iteration to its start (before the first havoc it is the function's pre-state)
    d["at_head"] = lambda o: old_view(o, getattr(lp, "head_state", None) or pre)
    d["head_state"] = getattr(lp, "head_state", None) or pre
    d["head"] = _NS(getattr(lp, "head_locals", None) or {})      # the locals as they were at this loop's head
    return _NS(d)


class _SetView:
    """read-only view of a ghost set (Array K Bool) for loop invariants"""

    def __init__(self, arr):
        self.arr = arr

    def __sym_contains__(self, k):
        from .sym import SymInt, SymStr
        t = k.t if hasattr(k, "t") else (k._ref if isinstance(k, ObjProxy) else (z3.StringVal(k) if isinstance(k, str) else z3.IntVal(k)))
        return z3.Select(self.arr, t)


def _check_inv(lp, locs, phase):
    c = _c()
    lp.phase = phase
    ns = _ns(lp, locs)
    for name, fn in lp.spec.inv:
        c.spec_mode += 1
        try:
            v = fn(ns)
        finally:
            c.spec_mode -= 1
        c.oblige(f"loop{lp.key[2]}:{lp.key[1]}/{name}/{phase}", v, kind="loop")


def _assume_inv(lp, locs):
    c = _c()
    lp.phase = "assume"
    ns = _ns(lp, locs)
    from .sym import to_z3_bool
    for name, fn in lp.spec.inv:
        c.spec_mode += 1
        try:
            v = fn(ns)
        finally:
            c.spec_mode -= 1
        c.assume_value(v)


def loop_begin(key, locs):
    spec = LOOP_SPECS[tuple(key)]
    lp = _Loop(tuple(key), spec)
    _check_inv(lp, locs, "entry")
    return lp


def for_begin(key, it, locs):
    spec = LOOP_SPECS[tuple(key)]
    lp = _Loop(tuple(key), spec)
    if type(it).__name__ == "_SymEnumerate":
        # `for i, x in enumerate(seq)` (rt.enumerate_): cut like a loop over `seq`; the target receives (start + L.i, seq[L.i])
        lp.enum_start = it.start
        it = it.seq
    if isinstance(it, SymList) and getattr(spec, "as_set", False) and getattr(it, "_from_set", None) is not None:
        # opt-in (`loop(...).as_set = True`): `for k in sorted(some_set)` enumerated as the set itself, in
        # ARBITRARY order - an over-approximation of the sorted order, for invariants that do not need the order
        it = it._from_set
    if isinstance(it, SymList):
        lp.seq = it.copy()
    elif isinstance(it, (list, tuple)):
        if spec.elem is None:
            raise SpecError(f"loop {key}: iterating a concrete list needs elem= in the loop contract")
        lp.seq = SymList(Box(Seq(spec.elem).unwrap(it)), spec.elem)
    elif isinstance(it, (SymSet, SymDict, _MapIter)) and not (
            isinstance(it, SymDict) and it._ty.ordered or isinstance(it, _MapIter) and it.d._ty.ordered):
        # unordered container: arbitrary enumeration order, modelled by a ghost `visited` set
        lp.mode = "set"
        if isinstance(it, SymSet):
            lp.kty, lp.dom, lp.view, lp.map = it._ty.elem, it._ty.dt.dom(it.term), "k", None
        elif isinstance(it, SymDict):
            lp.kty, lp.dom, lp.view, lp.map = it._ty.key, it._ty.dt.dom(it.term), "k", it
        else:
            lp.kty, lp.dom, lp.view, lp.map = it.d._ty.key, it.d._ty.dt.dom(it.d.term), it.mode, it.d
        lp.visited = z3.K(lp.kty.sort(), z3.BoolVal(False))
        lp.cur = None
        _check_inv(lp, locs, "entry")
        return lp
    elif isinstance(it, (SymDict, _MapIter)):
        ks = it._ordered_keys() if isinstance(it, SymDict) else it.ks
        lp.seq = ks.copy()
        lp.view = "k" if isinstance(it, SymDict) else it.mode
        lp.map = it if isinstance(it, SymDict) else it.d
    elif type(it).__name__ == "SymOMap" and it._ty.listlike:
        # a list of distinct items (omap.OSeq): enumerated as the set of its items, in ARBITRARY order - an
        # over-approximation of the list order, for loop contracts that do not depend on it (additive: was OUT-OF-REACH)
        lp.mode = "set"
        lp.kty, lp.dom, lp.view, lp.map = it._ty.key, it._ty.dt.dom(it.term), "k", None
        lp.visited = z3.K(lp.kty.sort(), z3.BoolVal(False))
        lp.cur = None
        _check_inv(lp, locs, "entry")
        return lp
    elif type(it).__name__ == "SymVec":
        lp.seq = _VecSeq(it.copy())
    elif _range_bounds(it) is not None:
        # `for x in range(lo, hi)` (step 1): the virtual sequence lo, lo+1, .., hi-1; L.i counts iterations
        lp.seq = _RangeSeq(*_range_bounds(it))
    elif _range_bounds_desc(it) is not None:
        # `for x in range(hi, lo, -1)`: the virtual sequence hi, hi-1, .., lo+1
        lp.seq = _RangeDescSeq(*_range_bounds_desc(it))
    else:
        raise OutOfReach(f"loop contract over iterable of type {type(it).__name__}")
    lp.i = 0
    _check_inv(lp, locs, "entry")
    return lp


def _range_bounds(it):
    """(lo, hi) of a step-1 range()/symbolic range, else None"""
    if isinstance(it, range):
        return (it.start, it.stop) if it.step == 1 else None
    if type(it).__name__ == "_SymRange" and getattr(it, "step", None) == 1:
        return it.lo, it.hi
    return None


def _range_bounds_desc(it):
    """(start, stop) of a step -1 range()/symbolic range, else None"""
    if isinstance(it, range):
        return (it.start, it.stop) if it.step == -1 else None
    if type(it).__name__ == "_SymRange" and getattr(it, "step", None) == -1:
        return it.lo, it.hi
    return None


class _RangeDescSeq:
    """what the loop cut needs of a SymList, for the integers start, start-1, .., stop+1"""
    _elem = T.Int

    def __init__(self, start, stop):
        self.start, self.stop = start, stop

    def copy(self):
        return self

    @property
    def term(self):
        return self

    def __getitem__(self, idx):
        return _t(self.start) - idx

    def _len(self):
        d = _t(self.start) - _t(self.stop)
        return z3.If(d > 0, d, z3.IntVal(0))

    def __sym_len__(self):
        return mk_num(self._len())


class _VecSeq:
    """the loop cut's view of a SymVec (pyvc/vec.py): elements by array select; L.seq is the SymVec"""

    def __init__(self, v):
        self.v = v
        self._elem = v._ty.elem

    def copy(self):
        return self

    @property
    def term(self):
        return self

    def __getitem__(self, idx):
        return z3.Select(self.v.arr(), idx)

    def _len(self):
        return self.v._len()

    def __sym_len__(self):
        return self.v.__sym_len__()


class _RangeSeq:
    """what the loop cut needs of a SymList, for the integers lo..hi-1 (no z3 sequence involved)"""
    _elem = T.Int

    def __init__(self, lo, hi):
        self.lo, self.hi = lo, hi

    def copy(self):
        return self

    @property
    def term(self):
        return self

    def __getitem__(self, idx):
        return _t(self.lo) + idx

    def _len(self):
        d = _t(self.hi) - _t(self.lo)
        return z3.If(d > 0, d, z3.IntVal(0))

    def __sym_len__(self):
        return mk_num(self._len())


def _havoc_value(name, v, spec):
    c = _c()
    ty = spec.types.get(name)
    if ty is not None and not isinstance(ty, T.Ty) and callable(ty):
        ty = ty()           # lazily resolved type (value classes need the repo imported)
    if ty is not None:
        return ty.fresh(f"lp_{name}")
    if v is UNBOUND or name is None:
        return UNBOUND
    if isinstance(v, bool) or isinstance(v, SymBool):
        return T.Bool.fresh(f"lp_{name}")
    if isinstance(v, (int, SymInt)):
        return T.Int.fresh(f"lp_{name}")
    if isinstance(v, (float, SymReal)):
        return T.Real.fresh(f"lp_{name}")
    if isinstance(v, (str, SymStr)):
        return T.Str.fresh(f"lp_{name}")
    if isinstance(v, ObjProxy):
        return Ref(v._cls).fresh(f"lp_{name}")
    if isinstance(v, SymList):
        if isinstance(v._loc, Box):
            return Seq(v._elem).fresh(f"lp_{name}")
        return v            # bound to a heap location: the heap havoc covers it
    if isinstance(v, (SymDict, SymSet)):
        if isinstance(v._loc, Box):
            return v._ty.fresh(f"lp_{name}")
        return v
    if isinstance(v, tuple):
        return tuple(_havoc_value(f"{name}{i}", x, spec) for i, x in enumerate(v))
    raise OutOfReach(f"cannot havoc loop-assigned local '{name}' of type {type(v).__name__}; give types= in the loop contract")


def _fresh_only_pre(c, spec):
    """`spec.fresh_only` (optional attribute, subset of modifies): heap fields the loop body writes only on
    objects it allocates itself.  Their havoc keeps every object that existed at loop entry; loop_back
    checks that the body respects it (additive: loops without the attribute are untouched)."""
    out = []
    for key in getattr(spec, "fresh_only", ()) or ():
        key = tuple(key)
        ty = c.heap.tys.get(key)
        if ty is None:
            ci = REG.by_name.get(key[0])
            ty = (ci.fields.get(key[1]) or ci.ghost.get(key[1])) if ci else None
        if ty is None:
            raise SpecError(f"loop contract: unknown fresh_only field {key}")
        out.append((key, ty, c.heap.array(key, ty), c.heap.alloc))
    return out


def _fresh_only_post(c, lp, fo):
    for key, ty, old_arr, alloc0 in fo:
        new_arr = c.heap.array(key, ty)
        r = z3.Int("lp_fo_r")
        c.heap.st.arrays[key] = z3.Lambda([r], z3.If(r <= alloc0, z3.Select(old_arr, r), z3.Select(new_arr, r)))
    lp.fo_alloc = c.heap.alloc


def _fresh_only_check(c, lp):
    from .sym import mk_bool
    for key in getattr(lp.spec, "fresh_only", ()) or ():
        key = tuple(key)
        pre, now = lp.pre_arrays.get(key), c.heap.st.arrays.get(key)
        if pre is None or now is None or pre.eq(now):
            continue
        r = c.fresh("lp_fo_sk", z3.IntSort())
        c.oblige(f"loop{lp.key[2]}:{lp.key[1]}/fresh-only:{key[0]}.{key[1]}",
                 mk_bool(z3.Implies(r <= lp.fo_alloc, z3.Select(now, r) == z3.Select(pre, r))), kind="loop")


def loop_havoc(lp, names, locs):
    c = _c()
    spec = lp.spec
    if spec.world:
        keep = {}
        for key in spec.keeps:
            ty = c.heap.tys.get(key)
            if ty is None:
                ci = REG.by_name.get(key[0])
                ty = (ci.fields.get(key[1]) or ci.ghost.get(key[1])) if ci else None
            if ty is None:
                raise SpecError(f"loop {lp.key}: unknown frame field {key}")
            keep[key] = (c.heap.array(key, ty), c.heap.st.key_epoch.get(key, c.heap.st.base_epoch))
        c.heap.havoc(None)
        for key, (arr, ep) in keep.items():
            c.heap.st.arrays[key] = arr
            c.heap.st.key_epoch[key] = ep
        # `since(obj)`: the arbitrary state at this loop head is the start of a new stretch of the function's own
        # steps (what happened before it is summarised by the invariant only)
        c.seg_state = c.heap.snapshot()
    else:
        fo = _fresh_only_pre(c, spec)
        c.heap.havoc(keys=set(spec.modifies)) if spec.modifies else None
        _fresh_only_post(c, lp, fo)
    vals = []
    newlocs = dict(locs)
    for n in names:
        v = _havoc_value(n, locs.get(n, UNBOUND), spec)
        vals.append(v)
        newlocs[n] = v
    if lp.seq is not None:
        i = T.Int.fresh("lp_i")
        c.assume(z3.And(_t(i) >= 0, _t(i) <= lp.seq._len()))
        lp.i = i
    if lp.mode == "set":
        lp.visited = c.fresh("lp_visited", z3.ArraySort(lp.kty.sort(), z3.BoolSort()))
        c.assume(z3.IsSubset(lp.visited, lp.dom))
    lp.pre_arrays = dict(c.heap.st.arrays)
    lp.head_state = c.heap.snapshot()       # `L.at_head(obj)`: the (arbitrary) state this iteration starts in
    lp.head_locals = {k: v for k, v in newlocs.items() if v is not UNBOUND and not k.startswith("_pyvc_")}   # `L.head.x`
    _assume_inv(lp, {k: v for k, v in newlocs.items() if v is not UNBOUND})
    if spec.decreases is not None:
        lp.dec0 = spec.decreases(_ns(lp, {k: v for k, v in newlocs.items() if v is not UNBOUND}))
    return tuple(vals) if names else None


def _t(i):
    return i.t if isinstance(i, SymInt) else z3.IntVal(i)


def cut_wanted(it):
    """False when the iterable has a concrete length (then CPython simply runs the loop)"""
    if isinstance(it, (list, tuple)):
        return False
    if isinstance(it, SymList):
        n = z3.simplify(it._len())
        if z3.is_int_value(n):
            return False
        # not syntactically concrete: does the path condition fix the length to a small value?
        c = _c()
        s = c.solver
        if s.check() == z3.sat:
            k = s.model().eval(n, model_completion=True)
            if z3.is_int_value(k) and 0 <= k.as_long() <= SymList.ITER_CAP:
                s.push()
                s.add(n != k)
                fixed = s.check() == z3.unsat
                s.pop()
                if fixed:
                    return False
        return True
    return True


def for_more(lp):
    if lp.mode == "set":
        from .sym import mk_bool
        return mk_bool(lp.visited != lp.dom)
    return lp.i < lp.seq.__sym_len__()


def for_next(lp):
    c = _c()
    if lp.mode == "set":
        kt = c.fresh("lp_key", lp.kty.sort())
        c.assume(z3.And(z3.Select(lp.dom, kt), z3.Not(z3.Select(lp.visited, kt))))
        lp.cur = kt
        k = lp.kty.wrap(kt)
    else:
        k = lp.seq._elem.wrap(lp.seq.term[_t(lp.i)])
        if getattr(lp, "enum_start", None) is not None:
            return (lp.enum_start + lp.i, k)
        if lp.view in (None, "k") or lp.map is None:
            return k
    if lp.view == "k":
        return k
    # live value of the key; assumes the body does not delete keys of the dict it iterates
    # (CPython raises RuntimeError on the next step otherwise)
    m = lp.map
    kt = m._k(k)
    v = m._ty.val.wrap(z3.Select(m._ty.dt.val(m.term), kt), m._valloc(kt))
    return v if lp.view == "v" else (k, v)


def loop_back(lp, locs):
    c = _c()
    # frame check: heap arrays outside `modifies` must be untouched by the body
    mods = set(lp.spec.modifies)
    for key, arr in c.heap.st.arrays.items():
        if key in mods:
            continue
        if lp.spec.world and key not in lp.spec.keeps:
            continue
        pre = lp.pre_arrays.get(key)
        if (pre is not None and not pre.eq(arr)) or (pre is None and not z3.is_const(arr)):
            raise SpecError(f"loop {lp.key}: body writes heap field {key} not listed in modifies")
    _fresh_only_check(c, lp)
    if lp.seq is not None:
        lp.i = lp.i + 1
    if lp.mode == "set":
        lp.visited = z3.Store(lp.visited, lp.cur, z3.BoolVal(True))
    _check_inv(lp, {k: v for k, v in locs.items() if v is not UNBOUND}, "step")
    if lp.spec.decreases is not None:
        d1 = lp.spec.decreases(_ns(lp, {k: v for k, v in locs.items() if v is not UNBOUND}))
        c.oblige(f"loop{lp.key[2]}:{lp.key[1]}/decreases", (d1 < lp.dec0) & (lp.dec0 >= 0), kind="loop")
    raise PathEnd("loop body verified (cut)")

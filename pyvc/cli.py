"""Command line: `python -m pyvc.cli <property> --tier quick|thorough` and `--replay <file>`.

Exit codes: 0 = every obligation discharged (or matched by an open known finding),
1 = violation (a VIOLATION line was printed), 2 = undecided / out of reach, 3 = checker crash.
"""
from __future__ import annotations

import argparse
import hashlib
import importlib
import json
import multiprocessing as mp
import os
import subprocess
import sys
import time
import traceback

VERIF = os.path.dirname(os.path.dirname(os.path.abspath(__file__)))
os.chdir(VERIF)
sys.path.insert(0, VERIF)

from . import loader  # noqa: E402

_TASKS = None
_OPTS = {}


def _worker(i):
    from .verify import run_task
    t = _TASKS[i]
    try:
        return i, run_task(t, timeout_s=_OPTS["task_timeout"], keep_smt=_OPTS["keep_smt"])
    except BaseException as e:      # noqa: BLE001
        return i, {"task": t.qualname, "kind": t.kind, "obligations": [], "paths": 0, "outcomes": {},
                   "out_of_reach": [], "error": f"crash: {type(e).__name__}: {e}\n{traceback.format_exc()[-800:]}",
                   "wall_s": 0, "stats": {}}


def _bounded_worker(i):
    b = _OPTS["bounded"][i]
    t0 = time.time()
    try:
        r = b["fn"](_OPTS["seed"], _OPTS["tier"])
        r.setdefault("violations", [])
    except BaseException as e:      # noqa: BLE001
        r = {"error": f"{type(e).__name__}: {e}\n{traceback.format_exc()[-800:]}", "evaluations": 0, "violations": []}
    r["name"] = b["name"]
    r["bound"] = b["bound"]
    r["wall_s"] = round(time.time() - t0, 2)
    return i, r


def load_known():
    p = os.path.join(VERIF, "KNOWN_FINDINGS.json")
    if not os.path.exists(p):
        return []
    return json.load(open(p))["findings"]


def main(argv=None):
    ap = argparse.ArgumentParser()
    ap.add_argument("prop", nargs="?")
    ap.add_argument("--tier", default=os.environ.get("VERIF_TIER", "quick"))
    ap.add_argument("--jobs", type=int, default=int(os.environ.get("PYVC_JOBS", "16")))
    ap.add_argument("--only", default=None, help="substring filter on task names (debugging; evidence not written)")
    ap.add_argument("--replay", default=None)
    ap.add_argument("--verbose", "-v", action="store_true")
    ap.add_argument("--no-evidence", action="store_true")
    a = ap.parse_args(argv)
    seed = int(os.environ.get("VERIF_SEED", "0") or 0)
    if a.replay:
        return replay_file(a.replay)
    if not a.prop:
        ap.error("property id required")
    t0 = time.time()
    loader.install()
    try:
        mod = importlib.import_module(f"specs.{a.prop}")
    except Exception as e:      # noqa: BLE001
        print(f"CHECKER-ERROR loading specs/{a.prop}.py: {type(e).__name__}: {e}")
        traceback.print_exc()
        return 3
    from . import spec as S
    global _TASKS
    prop = getattr(mod, "PROPERTY", {"id": a.prop})
    tasks = [t for t in S.TASKS if a.tier == "thorough" or "thorough-only" not in t.tags]
    if a.only:
        tasks = [t for t in tasks if a.only in t.qualname]
    _TASKS = tasks
    bounded = [b for b in prop.get("bounded", []) if a.tier == "thorough" or not b.get("thorough_only")]
    if a.only:
        bounded = [b for b in bounded if a.only in b["name"]]
    # (wall-clock backstop per task; the deciding budgets are the solver rlimits.  Generous on purpose: refuting an
    #  obligation under quantified facts - i.e. on a tree that breaks the property - takes up to three solver stages)
    _OPTS.update(task_timeout=prop.get("task_timeout", 900 if a.tier == "quick" else 2400),
                 keep_smt=1, bounded=bounded, seed=seed, tier=a.tier)
    if a.tier == "thorough":
        # thorough: 4x the deterministic solver budgets (set before the workers fork), thorough-only tasks,
        # the large bounds of the bounded stand-ins
        from . import ctx as _ctx_mod
        _ctx_mod.OB_RLIMIT *= 4
        _ctx_mod.FEAS_RLIMIT *= 4
        _ctx_mod.OB_TIMEOUT_MS *= 4
    results = [None] * len(tasks)
    bres = [None] * len(bounded)
    ctxmp = mp.get_context("fork")
    if a.jobs <= 1:
        for i in range(len(tasks)):
            results[i] = _worker(i)[1]
        for i in range(len(bounded)):
            bres[i] = _bounded_worker(i)[1]
    else:
        with ctxmp.Pool(a.jobs, maxtasksperchild=8) as pool:
            ar = pool.map_async(_worker, range(len(tasks)), chunksize=1)
            br = pool.map_async(_bounded_worker, range(len(bounded)), chunksize=1)
            for i, r in ar.get():
                results[i] = r
            for i, r in br.get():
                bres[i] = r
    return report(a, prop, tasks, results, bres, seed, t0)


def report(a, prop, tasks, results, bres, seed, t0):
    pid = prop.get("id", a.prop)
    known = [k for k in load_known() if k["property"] == pid]
    open_known = [k for k in known if k["status"] == "open"]
    n_ob = n_dis = 0
    refuted, undecided, crashes, oor, matched = [], [], [], [], []
    funcs, lemmas, samples = [], 0, []
    solver_time = 0.0
    by_backend = {}
    goals = set()
    n_nontrivial = 0
    for relpath, q, what in loader.DRIFT:
        oor.append((q, f"spec drift in {relpath}: {what} (the function changed under its contract; other clauses still checked)"))
    for t, r in zip(tasks, results):
        if r.get("error"):
            (crashes if not r.get("timeout") else undecided).append((r["task"], r["error"]))
        for m in r.get("out_of_reach", []):
            oor.append((r["task"], m))
        if r["kind"] != "lemma" and not r.get("error") and r.get("canary") == "PROVED":
            # `False` was provable at the end of a path: contradictory assumptions (vacuous spec)
            crashes.append((r["task"], "vacuity: canary `False` was PROVED at the end of a path"))
        obs = [o for o in r["obligations"] if o["kind"] != "canary"]
        if r["kind"] == "lemma":
            lemmas += 1
        else:
            f = dict(r.get("function", {}))
            f.update(paths=r["paths"], obligations=len(obs), wall_s=r.get("wall_s"))
            funcs.append(f)
        if not obs and not r.get("error") and not r.get("out_of_reach"):
            crashes.append((r["task"], "zero obligations generated"))
        for o in obs:
            solver_time += o["time_s"]
            oid = f"{pid}/{r['task']}/{o['name']}"
            o["id"] = oid
            if o["verdict"] == "PROVED":
                n_ob += 1
                n_dis += 1
                by_backend[o["solver"]] = by_backend.get(o["solver"], 0) + 1
                if not o.get("trivial"):
                    h = hashlib.sha1((oid + o["goal"]).encode()).hexdigest()
                    if h not in goals:
                        goals.add(h)
                        n_nontrivial += 1
                if len(samples) < 3 and not o.get("trivial"):
                    samples.append({"obligation": oid, "path": o["path"], "goal": o["goal"], "verdict": "PROVED",
                                    "solver": o["solver"], "time_s": o["time_s"],
                                    "smt2_head": (o.get("smt") or "")[:1500] or None})
            elif o["verdict"] == "REFUTED":
                k = next((k for k in open_known if k.get("task") == r["task"] and k.get("obligation") == o["name"]), None)
                if k is not None:
                    matched.append((k, o, t))
                else:
                    n_ob += 1
                    refuted.append((r["task"], o, t))
            else:
                # an obligation that an OPEN known finding names as false on this tree: a path on which the solver
                # finds no model for it (unknown) adds nothing new - same finding, not a separate undecided result
                k = next((k for k in open_known if k.get("task") == r["task"] and k.get("obligation") == o["name"]), None)
                if k is not None:
                    matched.append((k, o, t))
                    continue
                n_ob += 1
                undecided.append((r["task"], f"{o['name']}: {o['verdict']}"))
    # ---- bounded stand-ins
    bviol = []
    bsummary = []
    evaluations = n_ob
    for b in bres:
        if b is None:
            continue
        evaluations += int(b.get("evaluations", 0))
        if b.get("error"):
            crashes.append((b["name"], b["error"]))
        known_b = []
        for v in b.get("violations", []):
            k = next((k for k in open_known if k.get("bounded") == b["name"] and k.get("case") == v.get("case")), None)
            if k is not None:
                matched.append((k, {"name": b["name"], "model": v}, None))
                known_b.append(v)
            else:
                bviol.append((b["name"], v))
        bsummary.append({"fn": b["name"], "tool": "native enumeration (CPython)", "bound": b["bound"],
                         "evaluations": int(b.get("evaluations", 0)), "violations": len(b.get("violations", [])),
                         "wall_s": b.get("wall_s")})
    # ---- output
    lines = []
    exit_code = 0
    seen_known = set()
    for k, o, t in matched:
        key = (k.get("task"), k.get("obligation"), k.get("bounded"), k.get("case"))
        if key in seen_known:
            continue
        seen_known.add(key)
        lines.append(f"KNOWN-FINDING: property={pid} {k.get('task') or k.get('bounded')}/{k.get('obligation') or k.get('case')} {k['what_fails']}")
    os.makedirs(os.path.join(VERIF, "replays", pid), exist_ok=True)
    nviol = 0
    seen_v = set()
    for task, o, t in refuted:
        vid = (task, o["name"])
        if vid in seen_v:
            continue
        seen_v.add(vid)
        nviol += 1
        path, reproduced = write_replay(pid, task, o, t)
        suffix = "" if reproduced else " no-failing-input-found"
        lines.append(f"VIOLATION property={pid} replay={path}{suffix}")
        exit_code = 1
    for name, v in bviol:
        nviol += 1
        fn = os.path.join("replays", pid, f"bounded_{name}_{hashlib.sha1(json.dumps(v, sort_keys=True, default=str).encode()).hexdigest()[:8]}.json")
        json.dump({"property": pid, "bounded": name, "case": v}, open(os.path.join(VERIF, fn), "w"), indent=1, default=str)
        lines.append(f"VIOLATION property={pid} replay={fn}")
        exit_code = 1
    if exit_code == 0 and (undecided or oor):
        exit_code = 2
    if crashes:
        exit_code = 3 if exit_code != 1 else 1
    for ln in lines:
        print(ln)
    for task, m in oor:
        print(f"OUT-OF-REACH {task}: {m}")
    for task, m in undecided:
        print(f"UNDECIDED {task}: {m}")
    for task, m in crashes:
        print(f"CHECKER-ERROR {task}: {m}")
    wall = time.time() - t0
    print(f"[{pid}] tier={a.tier} functions={len(funcs)} lemmas={lemmas} obligations={n_ob} discharged={n_dis} "
          f"known={len(seen_known)} violations={nviol} undecided={len(undecided)} out_of_reach={len(oor)} "
          f"errors={len(crashes)} solver_s={solver_time:.1f} wall_s={wall:.1f} exit={exit_code}")
    if a.verbose:
        for t, r in zip(tasks, results):
            print(f"  {r['task']}: paths={r['paths']} {r['outcomes']} obs={len(r['obligations'])} wall={r.get('wall_s')}")
    if a.only or a.no_evidence:
        return exit_code
    ev = {
        "property_id": pid, "tier": a.tier, "seed": seed, "level": prop.get("level", "proof"),
        "coverage": {
            "obligations": n_ob, "discharged": n_dis,
            "checker_cmd": f"./check {pid} --tier {a.tier}",
            "trusted_base": prop.get("trusted", []) + ["z3 " + _z3v(), "CPython 3.13 executing the repo code on PyVC proxy values",
                                                         "PyVC encodings of builtins (pyvc/sym.py, heap.py, rt.py)"],
            "functions_under_contract": funcs, "lemmas": lemmas, "by_backend": by_backend,
            "solver_time_s": round(solver_time, 2),
            "known_findings_matched": [f"{k.get('task') or k.get('bounded')}/{k.get('obligation') or k.get('case')}" for k, _, _ in matched][:50],
            "refuted_not_counted_in_obligations": len(matched),
            "out_of_reach": [f"{t}: {m}" for t, m in oor], "undecided": [f"{t}: {m}" for t, m in undecided],
            "bounded_standins": bsummary,
            "samples": samples or [{"note": "no non-trivial obligation discharged in this run"}],
            "evaluations": max(evaluations, 0), "distinct_nontrivial": n_nontrivial,
            "rule": ("one obligation per (function under contract x path x clause); obligations matched by an OPEN entry of "
                     "KNOWN_FINDINGS.json are refuted, reported as KNOWN-FINDING and excluded from 'obligations'; "
                     "distinct_nontrivial counts discharged obligations whose goal does not simplify to true, "
                     "deduplicated by (id, goal text); bounded stand-ins add to evaluations only"),
            "transform_log": {k: v for k, v in loader.TRANSFORM_LOG.items() if any(v.values())},
        },
        "assumptions": prop.get("assumptions", []),
        "wall_s": round(wall, 2), "violations": nviol,
    }
    if prop.get("scan"):
        # library-wide syntactic scan (PROPERTY["scan"]: name of the bounded stand-in that ran it): its own evidence
        # key, level "other" - not part of the proof obligations
        sc = {k: v for k, v in prop["scan"].items() if k != "fn"}
        sc["result"] = next((b.get("scan") for b in bres if b and b.get("name") == prop["scan"].get("name")), None)
        ev["scan"] = sc
    os.makedirs(os.path.join(VERIF, "evidence"), exist_ok=True)
    json.dump(ev, open(os.path.join(VERIF, "evidence", f"{pid}.json"), "w"), indent=1, default=str)
    return exit_code


def _z3v():
    import z3
    return z3.get_version_string()


def write_replay(pid, task, o, contract):
    """Native replay of a refuted obligation; writes replays/<pid>/<hash>.json."""
    from . import replay as R
    name = hashlib.sha1(f"{task}/{o['name']}".encode()).hexdigest()[:10]
    rel = os.path.join("replays", pid, f"{task.replace('.', '_')}__{name}.json")
    rec = {"property": pid, "task": task, "obligation": o["name"], "id": o.get("id"), "kind": o["kind"],
           "path": o["path"], "goal": o["goal"], "solver": o["solver"], "verdict": o["verdict"],
           "solver_time_s": o["time_s"], "model": o.get("model"), "info": o.get("info"),
           "spec_module": f"specs.{pid}", "native": None}
    reproduced = False
    try:
        if contract is not None and contract.kind != "lemma" and isinstance(o.get("model"), dict) and "args" in o["model"]:
            nat = R.native_replay(contract, o["name"], o["model"], _valtypes())
            rec["native"] = nat
            reproduced = bool(nat.get("reproduced"))
    except Exception as e:      # noqa: BLE001
        rec["native"] = {"reproduced": None, "detail": f"replay harness error: {type(e).__name__}: {e}"}
    json.dump(rec, open(os.path.join(VERIF, rel), "w"), indent=1, default=str)
    return rel, reproduced


def _valtypes():
    from . import types as T
    out = {}
    for k, dt in list(T._dt_cache.items()):
        pass
    from .types import Val
    for v in Val.instances:
        for cls in v.variants:
            out[cls.__name__] = cls
    return out


def replay_file(path):
    rec = json.load(open(path))
    loader.install()
    pid = rec["property"]
    if rec.get("bounded"):
        mod = importlib.import_module(f"specs.{pid}")
        for b in mod.PROPERTY.get("bounded", []):
            if b["name"] == rec["bounded"] and "replay" in b:
                ok = b["replay"](rec["case"])
                print("reproduced" if not ok else "not reproduced")
                return 0 if ok else 1
        print("no replay function for bounded stand-in")
        return 2
    importlib.import_module(rec["spec_module"])
    from . import spec as S
    from . import replay as R
    contract = next((t for t in S.TASKS if t.qualname == rec["task"]), None)
    if contract is None:
        print("task not found")
        return 2
    nat = R.native_replay(contract, rec["obligation"], rec["model"], _valtypes())
    print(json.dumps(nat, indent=1, default=str))
    return 1 if nat.get("reproduced") else 0


if __name__ == "__main__":
    sys.exit(main())

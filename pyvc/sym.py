"""Symbolic scalar proxies: SymBool, SymInt, SymReal, SymStr.

Semantics assumed (listed in every evidence file): Python ints are unbounded (z3 Int, exact);
floats are modelled as mathematical reals (A-float: no rounding, no inf/nan arithmetic);
`//` and `%` follow Python's floor rule; int(x) truncates toward zero; strings are z3 strings.
"""
from __future__ import annotations

import math

import z3

from . import ctx as _ctx
from .ctx import OutOfReach

INF = float("inf")
MARK = "\u27e6sym\u27e7"     # marker for text derived from symbolic values by C-level formatting


def _c():
    return _ctx.cur()


# ---------------------------------------------------------------------------- lifting
def is_sym(x):
    return isinstance(x, (SymBool, SymInt, SymReal, SymStr))


def to_z3_bool(x):
    if isinstance(x, SymBool):
        return x.t
    if isinstance(x, bool):
        return z3.BoolVal(x)
    if isinstance(x, (SymInt, SymReal)):
        return x.t != 0
    if isinstance(x, (int, float)):
        return z3.BoolVal(bool(x))
    if x is None:
        return z3.BoolVal(False)
    if z3.is_bool(x) if isinstance(x, z3.ExprRef) else False:
        return x
    if hasattr(x, "__sym_bool__"):
        return x.__sym_bool__()
    return z3.BoolVal(bool(x))


def num_term(x):
    """-> (z3 term, is_real) for a Python/symbolic number."""
    if isinstance(x, SymInt):
        return x.t, False
    if isinstance(x, SymReal):
        return x.t, True
    if isinstance(x, SymBool):
        return z3.If(x.t, z3.IntVal(1), z3.IntVal(0)), False
    if isinstance(x, bool):
        return z3.IntVal(int(x)), False
    if isinstance(x, int):
        return z3.IntVal(x), False
    if isinstance(x, float):
        if math.isinf(x) or math.isnan(x):
            raise OutOfReach("arithmetic with float inf/nan")
        return real_val(x), True
    raise TypeError(f"not a number: {type(x).__name__}")


def real_val(x: float):
    # exact rational value of the float (floats are dyadic rationals)
    n, d = x.as_integer_ratio()
    return z3.RealVal(n) / z3.RealVal(d) if d != 1 else z3.RealVal(n)


def _is_num(x):
    return isinstance(x, (SymInt, SymReal, SymBool, int, float))


def mk_num(t):
    t = z3.simplify(t)
    if t.sort() == z3.IntSort():
        return SymInt(t)
    return SymReal(t)


def mk_bool(t):
    t = z3.simplify(t)
    if z3.is_true(t):
        return True
    if z3.is_false(t):
        return False
    return SymBool(t)


def py_floordiv_int(a, b):
    # Python floor division on ints; z3 div is floor for positive divisors
    return z3.If(b > 0, a / b, (-a) / (-b))


def trunc_real(x):
    return z3.If(x >= 0, z3.ToInt(x), -z3.ToInt(-x))


# ---------------------------------------------------------------------------- SymBool
class SymBool:
    __slots__ = ("t",)

    def __init__(self, t):
        self.t = t

    def __bool__(self):
        return _c().branch(self.t)

    def __and__(self, o):
        if getattr(o, "_q_kind", None):
            return NotImplemented       # let the quantified operand keep its structure
        return mk_bool(z3.And(self.t, to_z3_bool(o)))

    __rand__ = __and__

    def __or__(self, o):
        if getattr(o, "_q_kind", None):
            return NotImplemented
        return mk_bool(z3.Or(self.t, to_z3_bool(o)))

    __ror__ = __or__

    def __invert__(self):
        return mk_bool(z3.Not(self.t))

    def __xor__(self, o):
        return mk_bool(z3.Xor(self.t, to_z3_bool(o)))

    __rxor__ = __xor__

    def __eq__(self, o):
        if isinstance(o, (SymBool, bool)):
            return mk_bool(self.t == to_z3_bool(o))
        if _is_num(o):
            return SymInt(num_term(self)[0]) == o
        return False

    def __ne__(self, o):
        r = self.__eq__(o)
        return (not r) if isinstance(r, bool) else ~r

    def __hash__(self):
        raise OutOfReach("hash of symbolic bool")

    # numeric behaviour of bool
    def __add__(self, o):
        return SymInt(num_term(self)[0]) + o

    __radd__ = __add__

    def __int__(self):
        raise OutOfReach("int() of symbolic bool through C API")

    def __index__(self):
        raise OutOfReach("symbolic bool used as index")

    def __repr__(self):
        return f"SymBool({self.t})"

    def __format__(self, spec):
        return MARK


# ---------------------------------------------------------------------------- numbers
def _arith(op, a, b, swap=False):
    if not _is_num(b):
        return NotImplemented
    if swap:
        a, b = b, a
    if isinstance(a, float) and math.isinf(a) or isinstance(b, float) and math.isinf(b):
        return _inf_arith(op, a, b)
    ta, ra = num_term(a)
    tb, rb = num_term(b)
    real = ra or rb
    if op == "add":
        t = (z3.ToReal(ta) if real and not ra else ta) + (z3.ToReal(tb) if real and not rb else tb)
    elif op == "sub":
        t = (z3.ToReal(ta) if real and not ra else ta) - (z3.ToReal(tb) if real and not rb else tb)
    elif op == "mul":
        t = (z3.ToReal(ta) if real and not ra else ta) * (z3.ToReal(tb) if real and not rb else tb)
    elif op == "truediv":
        _div_guard(tb)
        t = (ta if ra else z3.ToReal(ta)) / (tb if rb else z3.ToReal(tb))
    elif op == "floordiv":
        _div_guard(tb)
        if real:
            q = (ta if ra else z3.ToReal(ta)) / (tb if rb else z3.ToReal(tb))
            t = z3.ToReal(z3.ToInt(q))
        else:
            t = py_floordiv_int(ta, tb)
    elif op == "mod":
        _div_guard(tb)
        if real:
            A = ta if ra else z3.ToReal(ta)
            B = tb if rb else z3.ToReal(tb)
            t = A - B * z3.ToReal(z3.ToInt(A / B))
        else:
            t = ta - tb * py_floordiv_int(ta, tb)
    else:
        raise AssertionError(op)
    return mk_num(t)


def _inf_arith(op, a, b):
    # one operand is +-inf float, the other symbolic-or-number (finite by A-float)
    if isinstance(a, float) and math.isinf(a) and op in ("add", "sub"):
        return a
    if isinstance(b, float) and math.isinf(b) and op == "add":
        return b
    if isinstance(b, float) and math.isinf(b) and op == "sub":
        return -b
    raise OutOfReach(f"float inf in {op}")


def _div_guard(tb):
    c = _c()
    if c.branch(tb == 0, site="div0"):
        raise ZeroDivisionError("division by zero (symbolic)")


def _cmp(op, a, b):
    if not _is_num(b):
        return NotImplemented
    if isinstance(b, float) and math.isinf(b):
        pos = b > 0
        return {"lt": pos, "le": pos, "gt": not pos, "ge": not pos, "eq": False, "ne": True}[op]
    if isinstance(b, float) and math.isnan(b):
        return op == "ne"
    ta, ra = num_term(a)
    tb, rb = num_term(b)
    if ra != rb:
        if not ra:
            ta = z3.ToReal(ta)
        else:
            tb = z3.ToReal(tb)
    t = {"lt": ta < tb, "le": ta <= tb, "gt": ta > tb, "ge": ta >= tb, "eq": ta == tb, "ne": ta != tb}[op]
    return mk_bool(t)


def _list_repeat(items, n):
    """[x] * n with a symbolic int n (see vec.py)"""
    if not isinstance(n, SymInt):
        raise OutOfReach("list * symbolic non-int")
    from . import vec
    return vec.repeat(items, n)


class _SymNum:
    __slots__ = ("t",)

    def __init__(self, t):
        self.t = t

    def __add__(self, o): return _arith("add", self, o)
    def __radd__(self, o): return _arith("add", self, o, True)
    def __sub__(self, o): return _arith("sub", self, o)
    def __rsub__(self, o): return _arith("sub", self, o, True)
    def __mul__(self, o): return _list_repeat(o, self) if isinstance(o, list) else _arith("mul", self, o)
    def __rmul__(self, o): return _list_repeat(o, self) if isinstance(o, list) else _arith("mul", self, o, True)
    def __truediv__(self, o): return _arith("truediv", self, o)
    def __rtruediv__(self, o): return _arith("truediv", self, o, True)
    def __floordiv__(self, o): return _arith("floordiv", self, o)
    def __rfloordiv__(self, o): return _arith("floordiv", self, o, True)
    def __mod__(self, o): return _arith("mod", self, o)
    def __rmod__(self, o): return _arith("mod", self, o, True)
    def __neg__(self): return mk_num(-self.t)
    def __pos__(self): return self
    def __abs__(self): return mk_num(z3.If(self.t >= 0, self.t, -self.t))
    def __lt__(self, o): return _cmp("lt", self, o)
    def __le__(self, o): return _cmp("le", self, o)
    def __gt__(self, o): return _cmp("gt", self, o)
    def __ge__(self, o): return _cmp("ge", self, o)

    def __eq__(self, o):
        r = _cmp("eq", self, o)
        return False if r is NotImplemented else r

    def __ne__(self, o):
        r = _cmp("ne", self, o)
        return True if r is NotImplemented else r

    def __bool__(self):
        return _c().branch(self.t != 0)

    def __hash__(self):
        raise OutOfReach("hash of a symbolic number (used as key of a concrete dict/set)")

    def __index__(self):
        # a symbolic integer used where CPython needs a machine index (subscript of a concrete list, slice bound,
        # repetition count): concretised by forking over the small values -8..16; a path on which the value can lie
        # outside that window stays OUT-OF-REACH, as before (never a pass)
        if not isinstance(self, SymInt):
            raise OutOfReach("symbolic real used as a concrete index/length")
        vals = list(range(0, 17)) + list(range(-1, -9, -1))
        conds = [self.t == v for v in vals] + [z3.And(*[self.t != v for v in vals])]
        k = _c().choose(conds, site="index")
        if k == len(vals):
            raise OutOfReach("symbolic number used as a concrete index/length (value may lie outside -8..16)")
        return vals[k]

    def __format__(self, spec):
        return MARK

    def __pow__(self, o):
        if isinstance(o, int) and 0 <= o <= 4:
            r = 1
            for _ in range(o):
                r = r * self
            return r
        raise OutOfReach("symbolic power")

    def __rpow__(self, o):
        raise OutOfReach("symbolic exponent")


class SymInt(_SymNum):
    __slots__ = ()

    def __repr__(self):
        return f"SymInt({self.t})"

    def __int__(self):
        raise OutOfReach("int() through the C API on a symbolic int (builtin not shimmed?)")

    def __float__(self):
        raise OutOfReach("float() through the C API on a symbolic int")

    # bitwise operators: uninterpreted bit model of pyvc/bits.py (OutOfReach outside its fragment)
    def __and__(self, o):
        from . import bits
        return bits.band(self, o)

    def __or__(self, o):
        from . import bits
        return bits.bor(self, o)

    def __xor__(self, o):
        from . import bits
        return bits.bxor(self, o)

    __rand__, __ror__, __rxor__ = __and__, __or__, __xor__

    def __lshift__(self, o):
        from . import bits
        return bits.shl(self, o)

    def __rlshift__(self, o):
        from . import bits
        return bits.shl(o, self)

    def __rshift__(self, o):
        from . import bits
        return bits.shr(self, o)

    def __rrshift__(self, o):
        from . import bits
        return bits.shr(o, self)


class SymReal(_SymNum):
    __slots__ = ()

    def __repr__(self):
        return f"SymReal({self.t})"

    def __float__(self):
        raise OutOfReach("float() through the C API on a symbolic real")

    def __int__(self):
        raise OutOfReach("int() through the C API on a symbolic real")

    def __round__(self, n=None):
        raise OutOfReach("round() of a symbolic real")


# ---------------------------------------------------------------------------- strings
class SymStr:
    __slots__ = ("t",)

    def __init__(self, t):
        self.t = t

    def _other(self, o):
        if isinstance(o, SymStr):
            return o.t
        if isinstance(o, str):
            return z3.StringVal(o)
        return None

    def __eq__(self, o):
        t = self._other(o)
        return False if t is None else mk_bool(self.t == t)

    def __ne__(self, o):
        t = self._other(o)
        return True if t is None else mk_bool(self.t != t)

    def __lt__(self, o):
        t = self._other(o)
        return NotImplemented if t is None else mk_bool(self.t < t)

    def __le__(self, o):
        t = self._other(o)
        return NotImplemented if t is None else mk_bool(self.t <= t)

    def __gt__(self, o):
        t = self._other(o)
        return NotImplemented if t is None else mk_bool(t < self.t)

    def __ge__(self, o):
        t = self._other(o)
        return NotImplemented if t is None else mk_bool(t <= self.t)

    def __add__(self, o):
        t = self._other(o)
        return NotImplemented if t is None else SymStr(z3.Concat(self.t, t))

    def __radd__(self, o):
        t = self._other(o)
        return NotImplemented if t is None else SymStr(z3.Concat(t, self.t))

    def __hash__(self):
        raise OutOfReach("hash of a symbolic string (key of a concrete dict/set)")

    def __bool__(self):
        return _c().branch(z3.Length(self.t) != 0)

    def __format__(self, spec):
        return MARK

    def __str__(self):
        return MARK          # message text only; Str.unwrap rejects any text containing MARK

    def __repr__(self):
        return f"SymStr({self.t})"

    def startswith(self, p):
        return mk_bool(z3.PrefixOf(self._other(p), self.t))

    def endswith(self, p):
        return mk_bool(z3.SuffixOf(self._other(p), self.t))

    def __len__(self):
        raise OutOfReach("len() of symbolic str through the C API")

    def __contains__(self, o):
        return _c().branch(z3.Contains(self.t, self._other(o)))

    def encode(self, *a):
        return SymBytes(self.t)


class SymBytes:
    """bytes derived from a symbolic string; only useful as input of the hashlib shims."""
    __slots__ = ("t",)

    def __init__(self, t):
        self.t = t

"""Sidecar specification API.  Spec files (`/verif/specs/*.py`) use only what is exported here.

A clause is a Python function over a namespace `s` (s.self, the arguments by name, s.result,
s.exc, s.old(obj) = view of obj in the pre-state, s.pre(obj) = view at the start of the current
atomic segment); it is evaluated on the same symbolic proxies as the code, and natively on real
objects by the replay harness.  Use & | ~ implies() instead of and/or/not so that a clause
stays one formula.
"""
from __future__ import annotations

import z3

from . import ctx as _ctx
from .ctx import OutOfReach, SpecError
from .sym import SymBool, SymInt, SymReal, SymStr, is_sym, mk_bool, mk_num, num_term, to_z3_bool
from . import types as T
from .types import Int, Real, Bool, Str, Any, Opt, Tuple, Val, Fn, RealInf, IntInf
from .heap import (Ref, OptRef, Seq, Map, Set, ClassInfo, REG, ObjProxy, SymList, SymDict, SymSet, Box,
                   same, new_object)
from .bag import Bag, SymHeap
from . import loader as _loader
from .loops import LoopSpec
from .gen import Yields

__all__ = ["Int", "Real", "Bool", "Str", "Any", "Opt", "Tuple", "Val", "Ref", "OptRef", "Seq", "Map",
           "Set", "cls", "fn", "ctor", "lemma", "loop", "ghost", "implies", "ite", "forall", "exists",
           "same", "slen", "contains", "TASKS", "Contract", "iff", "all_of", "any_of", "sym_and",
           "sym_or", "fresh", "assume", "oblige", "unchanged", "z3", "seq_term", "to_z3_bool",
           "mk_bool", "mk_num", "new_object", "num", "T", "stub_of", "REG", "valueclass", "Yields", "Fn", "ObjProxy", "SymList", "SymDict", "SymSet",
           "s_union", "s_inter", "s_diff", "s_eq", "s_subset", "s_disjoint", "s_is_empty", "s_has", "s_add",
           "native", "run_native_script", "RealInf", "Bag", "SymHeap", "field_term", "OutOfReach", "Raw", "Not", "last_popped", "popped_any", "SpecError", "IntInf", "cast", "has_class"]


def cast(obj, klass):
    """view a symbolic reference as an instance of `klass` (use together with has_class)"""
    if isinstance(obj, ObjProxy):
        return ObjProxy(obj._ref, klass, obj._frozen)
    return obj


def has_class(obj, klass):
    """the dynamic class of the reference is `klass` or a registered subclass (symbolic isinstance)"""
    from .heap import CLASS_OF, class_id
    if not isinstance(obj, ObjProxy):
        return isinstance(obj, klass)
    ids = sorted({class_id(k2) for k2 in REG.classes if issubclass(k2, klass)} | {class_id(klass)})
    return mk_bool(z3.Or(*[CLASS_OF(obj._ref) == i for i in ids]))


def last_popped(k=-1):
    """raw term of the k-th element removed by heapq.heappop on this path (ghost)"""
    pops = _ctx.cur().ghost_args.setdefault("heap_pops", [])
    if not pops:
        raise SpecError("last_popped(): no heappop on this path (guard the clause with a Python `if`)")
    return pops[k]


def popped_any():
    return bool(_ctx.cur().ghost_args.get("heap_pops"))


def field_term(obj, name, state=None):
    """raw z3 term of a field of a symbolic object (no wrapping, hence no forking): for clauses
    that must stay one formula (orders used under quantifiers)."""
    c = _ctx.cur()
    owner, ty = REG.field(obj._cls, name)
    st = state if state is not None else obj._frozen
    return z3.Select(c.heap.array((owner, name), ty, st), obj._ref)


def native():
    """True while a clause is evaluated by the replay harness on real objects."""
    return not _ctx.active()


def run_native_script(relpath, *args, timeout=3000):
    """Bounded stand-ins that drive the library through its public API run in a CLEAN interpreter (no import hook,
    no shims) against the tree under check: `<python> /verif/<relpath> args... --json` with PYTHONPATH=<tree>;
    the script prints one JSON object {"evaluations": n, "violations": [...]} as its last stdout line."""
    import json as _json
    import os as _os
    import subprocess as _sp
    import sys as _sys
    verif = _os.path.dirname(_os.path.dirname(_os.path.abspath(__file__)))
    env = dict(_os.environ, PYTHONPATH=_ctx.REPO, PYTHONHASHSEED=_os.environ.get("PYTHONHASHSEED", "0"))
    p = _sp.run([_sys.executable, _os.path.join(verif, relpath), *[str(a) for a in args], "--json"], cwd=_ctx.REPO, env=env,
                capture_output=True, text=True, timeout=timeout)
    lines = [ln for ln in p.stdout.splitlines() if ln.strip()]
    try:
        return _json.loads(lines[-1])
    except Exception:      # noqa: BLE001
        raise RuntimeError(f"{relpath} gave no JSON result (exit {p.returncode}): {p.stdout[-300:]} {p.stderr[-600:]}") from None

TASKS = []          # everything to verify, in declaration order
CONTRACTS = {}      # (pyclass or module name, fname) -> Contract


# ---------------------------------------------------------------------------- logic helpers
def implies(a, b):
    if isinstance(a, bool):
        return True if not a else b
    if getattr(b, "_q_kind", None) == "forall" and not getattr(a, "_q_kind", None):
        body = b.body
        return forall(b.ty, lambda x: implies(a, body(x)), b.name)
    if getattr(b, "_q_kind", None) == "conj" and not getattr(a, "_q_kind", None):
        return QConj([implies(a, p) for p in b.parts])
    return mk_bool(z3.Implies(to_z3_bool(a), to_z3_bool(b)))


def iff(a, b):
    return mk_bool(to_z3_bool(a) == to_z3_bool(b))


def ite(c, a, b):
    if isinstance(c, bool):
        return a if c else b
    ta, ra = num_term(a)
    tb, rb = num_term(b)
    if ra != rb:
        ta = ta if ra else z3.ToReal(ta)
        tb = tb if rb else z3.ToReal(tb)
    return mk_num(z3.If(to_z3_bool(c), ta, tb))


def sym_and(*xs):
    return mk_bool(z3.And(*[to_z3_bool(x) for x in xs])) if xs else True


def sym_or(*xs):
    return mk_bool(z3.Or(*[to_z3_bool(x) for x in xs])) if xs else False


all_of = sym_and
any_of = sym_or


class QForall(SymBool):
    """`forall x:ty. body(x)` kept symbolic: at the top level of an assumption it becomes a
    hand-instantiated fact, at the top level of an obligation it is skolemised (see ctx.py);
    anywhere else it degrades to the z3 quantifier `.t`."""
    __slots__ = ("ty", "body", "name")
    _q_kind = "forall"

    def __init__(self, ty, body, name, t):
        SymBool.__init__(self, t)
        self.ty, self.body, self.name = ty, body, name

    def __and__(self, o):
        return QConj([self, o])

    __rand__ = __and__

    def __or__(self, o):
        if getattr(o, "_q_kind", None):
            return SymBool.__or__(self, o)
        body = self.body
        return forall(self.ty, lambda x: o | body(x), self.name)

    __ror__ = __or__


class QConj(SymBool):
    __slots__ = ("parts",)
    _q_kind = "conj"

    def __init__(self, parts):
        flat = []
        for p in parts:
            flat.extend(p.parts if isinstance(p, QConj) else [p])
        self.parts = flat
        SymBool.__init__(self, z3.And(*[to_z3_bool(p) for p in flat]))

    def __and__(self, o):
        return QConj([self, o])

    __rand__ = __and__

    def __or__(self, o):
        if getattr(o, "_q_kind", None):
            return SymBool.__or__(self, o)
        return QConj([o | p for p in self.parts])       # distribute: a | (P & Q) == (a|P) & (a|Q)

    __ror__ = __or__


NATIVE_UNIVERSE = []      # set by the replay harness: atoms of the concrete pre/post state


def _native_domain(ty):
    if ty is Int:
        return [x for x in NATIVE_UNIVERSE if isinstance(x, int) and not isinstance(x, bool)]
    if ty is Str:
        return [x for x in NATIVE_UNIVERSE if isinstance(x, str)]
    if ty is Real:
        return [x for x in NATIVE_UNIVERSE if isinstance(x, (int, float)) and not isinstance(x, bool)]
    if isinstance(ty, Ref):
        return [x for x in NATIVE_UNIVERSE if isinstance(x, ty.cls)]
    return []


def _truth(v):
    if isinstance(v, SymBool):
        t = z3.simplify(v.t)
        if z3.is_true(t):
            return True
        if z3.is_false(t):
            return False
        raise ValueError("clause value is not concrete")
    return bool(v)


def forall(ty, body, name="q"):
    """forall x:ty. body(x) -- body receives the wrapped bound variable.  Natively (replay) the
    quantifier ranges over the atoms of the concrete state, which contain any witness the
    solver's model used."""
    if not _ctx.active():
        return all(_truth(body(x)) for x in _native_domain(ty))
    c = _ctx.cur()
    v = c.fresh("q_" + name, ty.sort())
    c.spec_mode += 1
    try:
        b = body(_wrap_quant(ty, v))
    finally:
        c.spec_mode -= 1
    return QForall(ty, body, name, z3.ForAll([v], to_z3_bool(b)))


def exists(ty, body, name="e"):
    if not _ctx.active():
        return any(_truth(body(x)) for x in _native_domain(ty))
    c = _ctx.cur()
    v = c.fresh("e_" + name, ty.sort())
    c.spec_mode += 1
    try:
        b = body(_wrap_quant(ty, v))
    finally:
        c.spec_mode -= 1
    return mk_bool(z3.Exists([v], to_z3_bool(b)))


class Raw:
    """quantify over a z3 sort directly: the body receives the raw z3 term"""

    def __init__(self, sort):
        self._s = sort
        self.name = f"Raw({sort})"

    def sort(self):
        return self._s


def Not(x):
    """negation that is also correct on Python bools (`~True` is -2 in Python)"""
    if isinstance(x, bool):
        return not x
    return ~x


def _wrap_quant(ty, v):
    # bound variables must not fork (no Opt / nullable / variant types)
    if isinstance(ty, Raw):
        return v
    if isinstance(ty, Ref):
        return ObjProxy(v, ty.cls)
    if ty is Int:
        return SymInt(v)
    if ty is Real:
        return SymReal(v)
    if ty is Str:
        return SymStr(v)
    if ty is Bool:
        return SymBool(v)
    if ty is Any:
        return T.SymAny(v)
    raise SpecError(f"quantification over {ty}")


def slen(x):
    from .rt import len_
    return len_(x)


def contains(container, x):
    f = getattr(container, "__sym_contains__", None)
    if f is not None:
        return mk_bool(f(x))
    return x in container


# ---- finite-set values in clauses: z3 `Array(T, Bool)` symbolically, frozenset natively -------
def _nat(*xs):
    return all(isinstance(x, (set, frozenset)) for x in xs)


def s_union(a, b):
    return frozenset(a) | frozenset(b) if _nat(a, b) else z3.SetUnion(a, b)


def s_inter(a, b):
    return frozenset(a) & frozenset(b) if _nat(a, b) else z3.SetIntersect(a, b)


def s_diff(a, b):
    return frozenset(a) - frozenset(b) if _nat(a, b) else z3.SetDifference(a, b)


def s_eq(a, b):
    return frozenset(a) == frozenset(b) if _nat(a, b) else mk_bool(a == b)


def s_subset(a, b):
    return frozenset(a) <= frozenset(b) if _nat(a, b) else mk_bool(z3.IsSubset(a, b))


def s_disjoint(a, b):
    if _nat(a, b):
        return not (frozenset(a) & frozenset(b))
    return mk_bool(z3.SetIntersect(a, b) == z3.K(a.sort().domain(), z3.BoolVal(False)))


def s_is_empty(a):
    if _nat(a):
        return len(a) == 0
    return mk_bool(a == z3.K(a.sort().domain(), z3.BoolVal(False)))


def s_has(a, x, ty=None):
    if _nat(a):
        return x in a
    return mk_bool(z3.Select(a, ty.unwrap(x) if ty is not None else x))


def s_add(a, x, ty=None):
    if _nat(a):
        return frozenset(a) | {x}
    return z3.Store(a, ty.unwrap(x) if ty is not None else x, z3.BoolVal(True))


def seq_term(x):
    if isinstance(x, SymList):
        return x.term
    raise SpecError("seq_term of non-sequence")


def num(x):
    return num_term(x)[0]


def fresh(ty, name="v"):
    return ty.fresh(name)


def assume(b):
    _ctx.cur().assume_value(b)


def oblige(name, b, kind="lemma"):
    return _ctx.cur().oblige(name, b, kind=kind)


def unchanged(s, obj, *fields):
    """obj's listed fields (default: all declared, non-ghost fields) equal their pre-state."""
    o = s.old(obj)
    if not isinstance(obj, ObjProxy):      # native replay
        names = list(fields)
        if not names:
            for k in type(obj).__mro__:
                ci = REG.classes.get(k)
                if ci:
                    names.extend(ci.fields)
        return all(getattr(obj, f, None) == getattr(o, f, None) for f in names)
    ci_fields = []
    if not fields:
        for k in obj._cls.__mro__:
            ci = REG.classes.get(k)
            if ci:
                ci_fields.extend(ci.fields)
        fields = ci_fields
    parts = []
    for f in fields:
        owner, ty = REG.field(obj._cls, f)
        c = _ctx.cur()
        a_now = c.heap.array((owner, f), ty)
        a_old = c.heap.array((owner, f), ty, o._frozen)
        parts.append(z3.Select(a_now, obj._ref) == z3.Select(a_old, obj._ref))
    return mk_bool(z3.And(*parts)) if parts else True


# ---------------------------------------------------------------------------- declarations
def cls(pyclass, fields=None, ghost=None, inv=None, guarantee=None, const=()):
    """Register a heap class: field types, ghost fields, invariant, two-state guarantee."""
    ci = REG.classes.get(pyclass)
    if ci is None:
        ci = ClassInfo(pyclass)
        REG.add(ci)
    ci.fields.update(fields or {})
    ci.ghost.update(ghost or {})
    ci.inv.extend(inv or [])
    ci.guarantee.extend(guarantee or [])
    ci.const.update(const)
    return ci


def valueclass(name, variants, fields):
    return Val(name, variants, fields)


class Contract:
    def __init__(self, owner, name, args=None, requires=(), ensures=(), raises=None, returns=None,
                 modifies=None, self_ty=None, kind="method", inv=True, uses=(), yields=None,
                 tags=(), focus=None, pure=False, max_paths=4000, setup=None, inline=(), label=None,
                 teardown=None):
        self.owner, self.name = owner, name
        self.label = label                # distinguishes several contracts of one function (argument types)
        self.teardown = teardown          # undo of whatever `setup` patched (runs after every path)
        self.args = dict(args or {})
        self.requires = list(requires)
        self.ensures = list(ensures)
        self.raises = dict(raises or {})
        self.returns = returns
        self.modifies = modifies          # None = unknown (havoc all fields of self when stubbed)
        self.self_ty = self_ty
        self.kind = kind                  # method | ctor | function | lemma
        self.inv = inv
        self.uses = list(uses)            # contracts of callees to substitute: [(owner, name)]
        self.yields = yields
        self.tags = tuple(tags)
        self.focus = focus
        self.pure = pure
        self.max_paths = max_paths
        self.setup = setup
        self.body = None                  # for lemmas

    @property
    def qualname(self):
        o = self.owner if isinstance(self.owner, str) else self.owner.__name__
        return f"{o}.{self.name}" + (f"[{self.label}]" if self.label else "")


def fn(owner, name, **kw):
    """Contract of method `name` of heap class `owner` (or function of module `owner`)."""
    c = Contract(owner, name, **kw)
    if isinstance(owner, type) and c.kind == "method" and c.self_ty is None:
        c.self_ty = Ref(owner)
    CONTRACTS[(owner, name)] = c
    TASKS.append(c)
    return c


def ctor(owner, **kw):
    kw.setdefault("kind", "ctor")
    c = Contract(owner, "__init__", **kw)
    CONTRACTS[(owner, "__init__")] = c
    TASKS.append(c)
    return c


def stub_of(owner, name, **kw):
    """A contract that is only *used* (trusted or proved elsewhere), never verified here."""
    c = Contract(owner, name, **kw)
    if isinstance(owner, type) and c.self_ty is None:
        c.self_ty = Ref(owner)
    c.tags = c.tags + ("assumed",)
    CONTRACTS[(owner, name)] = c
    return c


def lemma(name, body, tags=()):
    """Pure SMT lemma: body() builds symbolic values with fresh(), calls assume()/oblige()."""
    c = Contract("lemma", name, kind="lemma", tags=tags)
    c.body = body
    TASKS.append(c)
    return c


def loop(relpath, qualname, ordinal, inv, modifies=(), types=None, elem=None, decreases=None, keeps=(),
         native_if_concrete=False):
    sp = LoopSpec(inv, modifies, types, elem, decreases, keeps=keeps)
    sp.native_if_concrete = native_if_concrete
    _loader.declare_loop(relpath, qualname, ordinal, sp)
    return sp


def ghost(relpath, qualname, pattern, code, where="after"):
    _loader.declare_ghost(relpath, qualname, pattern, code, where)

"""Import hook: every `happysimulator.*` module is compiled from its source file in /repo's
current working tree after a *mechanical* AST rewrite, and gets the runtime shims of rt.py as
module globals.  What the rewrite changes (and nothing else):

  1. `a is b` / `a is not b` where neither side is a None/True/False/NotImplemented/Ellipsis
     literal  ->  _pyvc_is(a, b) / _pyvc_is_not(a, b)   (identity of symbolic references);
  2. f-strings -> _pyvc_fstr(...)   (same text on concrete values; symbolic text otherwise);
  3. a loop that has a loop contract in the spec -> `if _pyvc_active(): <invariant cut> else:
     <the original loop, untouched>`;
  4. ghost statements declared in the spec are inserted as `if _pyvc_active(): <stmt>`.

With no symbolic context active (`_pyvc_active()` false) the module behaves as the original;
selftest/differential.py runs part of the repo's own test-suite through this loader to check it.
"""
from __future__ import annotations

import ast
import hashlib
import importlib.abc
import importlib.machinery
import os
import sys

from . import ctx as _ctx
from .ctx import REPO, SpecError

PKG = "happysimulator"

LOOP_SPECS = {}      # (relpath, qualname, ordinal) -> LoopSpec
GHOST_STMTS = {}     # (relpath, qualname) -> [(pattern, code, where)]
DRIFT = []           # (relpath, qualname, what): spec anchors that no longer match the source
LOADED = {}          # module name -> relpath
SRC_SHA = {}         # relpath -> sha1 of source
TRANSFORM_LOG = {}   # relpath -> dict(counts)


class _Rewriter(ast.NodeTransformer):
    def __init__(self, relpath):
        self.relpath = relpath
        self.stack = []
        self.loop_counter = {}
        self.counts = {"is": 0, "fstr": 0, "loops": 0, "ghost": 0}
        self.uid = 0

    # -- qualname tracking
    def _qual(self):
        return ".".join(self.stack)

    def visit_ClassDef(self, node):
        self.stack.append(node.name)
        self.generic_visit(node)
        self.stack.pop()
        return node

    def _visit_func(self, node):
        self.stack.append(node.name)
        q = self._qual()
        self.stack.append("<locals>")
        saved = self.loop_counter.get(q)
        self.loop_counter[q] = 0
        self.generic_visit(node)
        self.stack.pop()
        gh = GHOST_STMTS.get((self.relpath, q))
        if gh:
            node.body = self._insert_ghost(node.body, gh, q)
        self.stack.pop()
        return node

    visit_FunctionDef = _visit_func
    visit_AsyncFunctionDef = _visit_func

    def _cur_func(self):
        # qualname of the innermost enclosing function
        s = list(self.stack)
        while s and s[-1] == "<locals>":
            s.pop()
        return ".".join(s)

    # -- 1. identity
    def visit_Compare(self, node):
        self.generic_visit(node)
        if len(node.ops) == 1 and isinstance(node.ops[0], (ast.Is, ast.IsNot)):
            l, r = node.left, node.comparators[0]
            if not (_is_singleton(l) or _is_singleton(r)):
                self.counts["is"] += 1
                fn = "_pyvc_is" if isinstance(node.ops[0], ast.Is) else "_pyvc_is_not"
                return ast.copy_location(
                    ast.Call(ast.Name(fn, ast.Load()), [l, r], []), node)
        return node

    # -- 2. f-strings
    def visit_JoinedStr(self, node):
        self.generic_visit(node)
        self.counts["fstr"] += 1
        return ast.copy_location(self._fstr_call(node), node)

    # -- 5. set displays `{a, b}` -> _pyvc_mkset(a, b)  (same set on concrete elements; comp.py)
    def visit_Set(self, node):
        self.generic_visit(node)
        if any(isinstance(e, ast.Starred) for e in node.elts):
            return node
        self.counts["setlit"] = self.counts.get("setlit", 0) + 1
        return ast.copy_location(ast.Call(ast.Name("_pyvc_mkset", ast.Load()), list(node.elts), []), node)

    # -- 6. list comprehensions that have an element-type declaration in the spec (comp.py);
    #       every other comprehension is left untouched
    def visit_ListComp(self, node):
        from .comp import COMP_SPECS
        q = self._cur_func()
        ck = ("comp", q)
        k = self.loop_counter.get(ck, 0) + 1
        self.loop_counter[ck] = k
        self.generic_visit(node)
        from .comp import FILTER_SPECS
        if (self.relpath, q, k) in FILTER_SPECS:
            # `[x for x in it if cond(x)]` declared as a filter (comp.filtercomp): additive rule 6b
            g = node.generators[0]
            if (len(node.generators) != 1 or len(g.ifs) != 1 or g.is_async or not isinstance(g.target, ast.Name)
                    or not isinstance(node.elt, ast.Name) or node.elt.id != g.target.id):
                raise SpecError(f"filter contract on an unsupported comprehension: {self.relpath}:{q}#{k}")
            self.counts["comps"] = self.counts.get("comps", 0) + 1
            cond = g.ifs[0]
            if isinstance(cond, ast.UnaryOp) and isinstance(cond.op, ast.Not):
                # `if not p(x)`: Python `not` would fork on the generic element; same value via the non-forking negation
                cond = ast.Call(ast.Name("_pyvc_not", ast.Load()), [cond.operand], [])
            lam = ast.Lambda(ast.arguments(posonlyargs=[], args=[ast.arg(g.target.id)], kwonlyargs=[], kw_defaults=[],
                                           defaults=[]), cond)
            return ast.copy_location(ast.Call(ast.Name("_pyvc_filtercomp", ast.Load()),
                                              [ast.Constant((self.relpath, q, k)), lam, g.iter], []), node)
        if (self.relpath, q, k) not in COMP_SPECS:
            return node
        g = node.generators[0]
        if len(node.generators) != 1 or g.ifs or g.is_async or not isinstance(g.target, ast.Name):
            raise SpecError(f"comprehension contract on an unsupported comprehension: {self.relpath}:{q}#{k}")
        self.counts["comps"] = self.counts.get("comps", 0) + 1
        lam = ast.Lambda(ast.arguments(posonlyargs=[], args=[ast.arg(g.target.id)], kwonlyargs=[], kw_defaults=[],
                                       defaults=[]), node.elt)
        return ast.copy_location(ast.Call(ast.Name("_pyvc_listcomp", ast.Load()),
                                          [ast.Constant((self.relpath, q, k)), lam, g.iter], []), node)

    def _fstr_call(self, node):
        args = []
        for v in node.values:
            if isinstance(v, ast.Constant):
                args.append(v)
            elif isinstance(v, ast.FormattedValue):
                conv = {-1: "", 115: "s", 114: "r", 97: "a"}[v.conversion]
                spec = v.format_spec
                if spec is None:
                    spec_e = ast.Constant("")
                elif isinstance(spec, ast.JoinedStr):
                    spec_e = self._fstr_call(spec)
                else:
                    spec_e = spec
                args.append(ast.Tuple([v.value, ast.Constant(conv), spec_e], ast.Load()))
            else:       # already rewritten nested call
                args.append(v)
        return ast.Call(ast.Name("_pyvc_fstr", ast.Load()), args, [])

    # -- 7. `name = [elt for x in it if cond]` that has a LOOP contract with ordinal "comp<k>" in the spec
    #       (k = ordinal of the list comprehension in its function) is desugared, for symbolic runs only, into
    #       `name = []` + `for x in it: if cond: name.append(elt)`; that loop is then cut like any loop under
    #       contract (the contract must give `name` a type in types=, so that it is havoc'd at the loop head).
    #       Additive: assignments without such a contract are untouched.
    def visit_AnnAssign(self, node):
        # rule 7 also for the annotated form `name: T = [comprehension]` (additive: only when such a loop contract exists)
        if isinstance(node.value, ast.ListComp) and isinstance(node.target, ast.Name) and node.simple:
            q = self._cur_func()
            k = self.loop_counter.get(("comp", q), 0) + 1
            if LOOP_SPECS.get((self.relpath, q, f"comp{k}")) is not None:
                return self.visit_Assign(ast.copy_location(ast.Assign([node.target], node.value), node))
        self.generic_visit(node)
        return node

    def visit_Assign(self, node):
        v = node.value
        if isinstance(v, ast.ListComp) and len(node.targets) == 1 and isinstance(node.targets[0], ast.Name):
            q = self._cur_func()
            k = self.loop_counter.get(("comp", q), 0) + 1
            spec = LOOP_SPECS.get((self.relpath, q, f"comp{k}"))
            if spec is not None:
                import copy as _copy
                g = v.generators[0]
                name = node.targets[0].id
                if len(v.generators) != 1 or g.is_async or name not in (spec.types or {}):
                    raise SpecError(f"loop contract on an unsupported comprehension (or its target has no type in "
                                    f"types=): {self.relpath}:{q}#comp{k}")
                self.loop_counter[("comp", q)] = k
                orig = _copy.deepcopy(node)
                add = ast.Expr(ast.Call(ast.Attribute(ast.Name(name, ast.Load()), "append", ast.Load()), [v.elt], []))
                body = [add]
                if g.ifs:
                    body = [ast.If(g.ifs[0] if len(g.ifs) == 1 else ast.BoolOp(ast.And(), list(g.ifs)), [add], [])]
                loop = _copy_locs(ast.For(g.target, g.iter, body, [], None), node)
                init = ast.Assign([ast.Name(name, ast.Store())], ast.List([], ast.Load()))
                cut = self._loop(loop, key=f"comp{k}")
                wrapped = ast.If(ast.Call(ast.Name("_pyvc_active", ast.Load()), [], []), [init, cut], [orig])
                return ast.copy_location(ast.fix_missing_locations(_copy_locs(wrapped, node)), node)
        self.generic_visit(node)
        return node

    # -- 3. loops
    def _loop(self, node, key=None):
        q = self._cur_func()
        if key is None:
            k = self.loop_counter.get(q, 0) + 1
            self.loop_counter[q] = k
        else:
            k = key                       # a desugared comprehension (rule 7): does not take a loop ordinal
        self.generic_visit(node)          # nested loops numbered after (pre-order numbering)
        spec = LOOP_SPECS.get((self.relpath, q, k))
        if spec is None:
            return node
        if node.orelse:
            raise SpecError(f"loop contract on a loop with else-clause: {self.relpath}:{q}#{k}")
        spec.src = ast.unparse(node).splitlines()[0]
        self.counts["loops"] += 1
        self.uid += 1
        lp = f"_pyvc_lp{self.uid}"
        assigned = sorted(_assigned_names(node.body) | (_target_names(node.target) if isinstance(node, ast.For) else set())
                          | set(getattr(spec, "types", None) or ()))     # locals only mutated in place: havoc'd when typed
        key = ast.Constant((self.relpath, q, k))
        locs = ast.Call(ast.Name("locals", ast.Load()), [], [])

        def call(fn, *a):
            return ast.Call(ast.Name(fn, ast.Load()), list(a), [])
        import copy as _copy        # (a copy: nested `continue`s are replaced in place, the original loop must keep its own)
        body2 = _ReplaceContinue(lp).run(_copy.deepcopy(node.body))
        new = []
        if isinstance(node, ast.For):
            new.append(ast.Assign([ast.Name(lp, ast.Store())], call("_pyvc_for_begin", key, node.iter, locs)))
        else:
            new.append(ast.Assign([ast.Name(lp, ast.Store())], call("_pyvc_loop_begin", key, locs)))
        inner = []
        if assigned:
            tgt = ast.Tuple([ast.Name(n, ast.Store()) for n in assigned], ast.Store())
            inner.append(ast.Assign([tgt], call("_pyvc_loop_havoc", ast.Name(lp, ast.Load()),
                                                   ast.Constant(tuple(assigned)), locs)))
        else:
            inner.append(ast.Expr(call("_pyvc_loop_havoc", ast.Name(lp, ast.Load()), ast.Constant(()), locs)))
        if isinstance(node, ast.For):
            inner.append(ast.If(ast.UnaryOp(ast.Not(), call("_pyvc_for_more", ast.Name(lp, ast.Load()))),
                                [ast.Break()], []))
            inner.append(ast.Assign([node.target], call("_pyvc_for_next", ast.Name(lp, ast.Load()))))
        else:
            inner.append(ast.If(ast.UnaryOp(ast.Not(), node.test), [ast.Break()], []))
        inner.extend(body2)
        inner.append(ast.Expr(call("_pyvc_loop_back", ast.Name(lp, ast.Load()), locs)))
        new.append(ast.While(ast.Constant(True), inner, []))
        if isinstance(node, ast.For) and getattr(spec, "native_if_concrete", False):
            # opt-in: a sequence of concrete length is simply iterated by CPython (exact), the
            # invariant cut is used only when the length is symbolic
            itn = f"_pyvc_it{self.uid}"
            new[0] = ast.Assign([ast.Name(lp, ast.Store())], call("_pyvc_for_begin", key, ast.Name(itn, ast.Load()), locs))
            orig = ast.For(node.target, ast.Name(itn, ast.Load()), node.body, [])
            cond = ast.BoolOp(ast.And(), [call("_pyvc_active"), call("_pyvc_cut_wanted", ast.Name(itn, ast.Load()))])
            wrapped = [ast.Assign([ast.Name(itn, ast.Store())], node.iter), ast.If(cond, new, [orig])]
            out = [ast.fix_missing_locations(_copy_locs(w, node)) for w in wrapped]
            return [ast.copy_location(w, node) for w in out]
        wrapped = ast.If(call("_pyvc_active"), new, [node])
        return ast.copy_location(ast.fix_missing_locations(_copy_locs(wrapped, node)), node)

    visit_While = _loop
    visit_For = _loop

    # -- 4. ghost statements
    def _insert_ghost(self, body, ghosts, q):
        for pattern, code, where in ghosts:
            stmts = ast.parse(code).body
            guard = ast.If(ast.Call(ast.Name("_pyvc_active", ast.Load()), [], []), stmts, [])
            if where == "entry":
                i = 1 if body and isinstance(body[0], ast.Expr) and isinstance(getattr(body[0], "value", None), ast.Constant) and isinstance(body[0].value.value, str) else 0
                body = body[:i] + [_copy_locs(guard, body[min(i, len(body) - 1)])] + body[i:]
                self.counts["ghost"] += 1
                continue
            if where in ("before*", "after*"):      # at EVERY matching simple statement of the function
                n_ins = _insert_every(body, pattern, code, where[:-1])
                if not n_ins:
                    DRIFT.append((self.relpath, q, f"ghost anchor {pattern!r} not found"))
                self.counts["ghost"] += n_ins
                continue
            ok = _insert_after(body, pattern, guard, where)
            if not ok:
                # the anchored statement is gone from the source (the function was changed): the ghost update / ghost
                # assertion cannot be attached.  The function is still verified against every other clause - a clause
                # that now fails is a VIOLATION - and the drift itself is reported as not-decided (exit 2), never
                # as a pass and never as a violation
                DRIFT.append((self.relpath, q, f"ghost anchor {pattern!r} not found"))
                continue
            self.counts["ghost"] += 1
        return body


def _insert_every(body, pattern, code, where):
    """ghost statement before/after every simple statement whose text contains the pattern; returns the count"""
    n, i = 0, 0
    while i < len(body):
        st = body[i]
        if getattr(st, "_pyvc_ghost", False):
            i += 1
            continue
        if not isinstance(st, (ast.If, ast.While, ast.For, ast.With, ast.Try)) and pattern in ast.unparse(st):
            g = _copy_locs(ast.If(ast.Call(ast.Name("_pyvc_active", ast.Load()), [], []), ast.parse(code).body, []), st)
            g._pyvc_ghost = True
            body.insert(i if where == "before" else i + 1, g)
            n += 1
            i += 2
            continue
        for fld in ("body", "orelse", "finalbody"):
            sub = getattr(st, fld, None)
            if isinstance(sub, list) and sub and isinstance(sub[0], ast.stmt):
                n += _insert_every(sub, pattern, code, where)
        for h in getattr(st, "handlers", []) or []:
            n += _insert_every(h.body, pattern, code, where)
        i += 1
    return n


def _insert_after(body, pattern, guard, where):
    for i, st in enumerate(body):
        first = ast.unparse(st).split("\n")[0] if not isinstance(st, (ast.If, ast.While, ast.For, ast.With, ast.Try)) else None
        if first is not None and pattern in ast.unparse(st):
            g = _copy_locs(guard, st)
            if where == "before":
                body.insert(i, g)
            else:
                body.insert(i + 1, g)
            return True
        for fld in ("body", "orelse", "finalbody"):
            sub = getattr(st, fld, None)
            if isinstance(sub, list) and sub and isinstance(sub[0], ast.stmt):
                if _insert_after(sub, pattern, guard, where):
                    return True
        for h in getattr(st, "handlers", []) or []:
            if _insert_after(h.body, pattern, guard, where):
                return True
    return False


def _copy_locs(new, ref):
    for n in ast.walk(new):
        if not hasattr(n, "lineno") or getattr(n, "lineno", None) is None:
            n.lineno = getattr(ref, "lineno", 1)
            n.col_offset = getattr(ref, "col_offset", 0)
            n.end_lineno = getattr(ref, "end_lineno", n.lineno)
            n.end_col_offset = getattr(ref, "end_col_offset", 0)
    return new


class _ReplaceContinue(ast.NodeTransformer):
    def __init__(self, lp):
        self.lp = lp

    def run(self, body):
        return [self.visit(s) for s in body]

    def visit_Continue(self, node):
        return ast.copy_location(ast.Expr(ast.Call(ast.Name("_pyvc_loop_back", ast.Load()),
                                                   [ast.Name(self.lp, ast.Load()),
                                                    ast.Call(ast.Name("locals", ast.Load()), [], [])], [])), node)

    # do not descend into nested loops / functions: their `continue` is their own
    def visit_While(self, node):
        return node

    visit_For = visit_FunctionDef = visit_AsyncFunctionDef = visit_Lambda = visit_ClassDef = visit_While


def _is_singleton(e):
    if isinstance(e, ast.Constant) and (e.value is None or e.value is True or e.value is False or e.value is Ellipsis):
        return True
    if isinstance(e, ast.Name) and e.id == "NotImplemented":
        return True
    return False


def _target_names(t):
    out = set()
    for n in ast.walk(t):
        if isinstance(n, ast.Name):
            out.add(n.id)
    return out


def _assigned_names(body):
    out = set()

    class V(ast.NodeVisitor):
        def visit_Name(self, n):
            if isinstance(n.ctx, (ast.Store, ast.Del)):
                out.add(n.id)

        def visit_FunctionDef(self, n):
            out.add(n.name)

        visit_AsyncFunctionDef = visit_FunctionDef

        def visit_ClassDef(self, n):
            out.add(n.name)

        def visit_Lambda(self, n):
            pass

        def visit_ListComp(self, n):
            for g in n.generators:
                self.visit(g.iter)

        visit_SetComp = visit_DictComp = visit_GeneratorExp = visit_ListComp
    for s in body:
        V().visit(s)
    return {n for n in out if not n.startswith("_pyvc_")}


def transform_source(data, path):
    relpath = os.path.relpath(path, REPO)
    tree = ast.parse(data, filename=path)
    rw = _Rewriter(relpath)
    tree = rw.visit(tree)
    ast.fix_missing_locations(tree)
    SRC_SHA[relpath] = hashlib.sha1(data if isinstance(data, bytes) else data.encode()).hexdigest()
    TRANSFORM_LOG[relpath] = rw.counts
    return tree


class _Loader(importlib.machinery.SourceFileLoader):
    def get_code(self, fullname):
        path = self.get_filename(fullname)
        data = self.get_data(path)
        tree = transform_source(data, path)
        return compile(tree, path, "exec", dont_inherit=True)

    def exec_module(self, module):
        from . import rt, loops
        d = module.__dict__
        d.update(rt.SHIMS)
        d["_pyvc_is"] = rt.is_
        d["_pyvc_is_not"] = rt.is_not_
        d["_pyvc_fstr"] = rt.fstr_
        from . import comp
        d["_pyvc_mkset"] = comp.mkset
        d["_pyvc_listcomp"] = comp.listcomp
        d["_pyvc_filtercomp"] = comp.filtercomp
        d["_pyvc_not"] = comp.not_
        d["_pyvc_active"] = _ctx.active
        d["_pyvc_loop_begin"] = loops.loop_begin
        d["_pyvc_for_begin"] = loops.for_begin
        d["_pyvc_loop_havoc"] = loops.loop_havoc
        d["_pyvc_for_more"] = loops.for_more
        d["_pyvc_for_next"] = loops.for_next
        d["_pyvc_loop_back"] = loops.loop_back
        d["_pyvc_cut_wanted"] = loops.cut_wanted
        LOADED[module.__name__] = os.path.relpath(self.get_filename(module.__name__), REPO)
        super().exec_module(module)
        # stdlib modules whose C implementations need concrete values are replaced, in the
        # module's globals only, by shims carrying trusted contracts (bag.py, extern.py)
        from . import extern
        extern.patch_module_globals(d)


class _Finder(importlib.abc.MetaPathFinder):
    def find_spec(self, fullname, path, target=None):
        if fullname != PKG and not fullname.startswith(PKG + "."):
            return None
        spec = importlib.machinery.PathFinder.find_spec(fullname, path if path else [REPO], target)
        if spec is None or not isinstance(spec.loader, importlib.machinery.SourceFileLoader):
            return spec
        if not (spec.origin or "").startswith(REPO + "/"):
            raise SpecError(f"{fullname} resolves outside {REPO}: {spec.origin}")
        spec.loader = _Loader(spec.loader.name, spec.loader.path)
        return spec


_installed = False


def install():
    global _installed
    if _installed:
        return
    for m in list(sys.modules):
        if m == PKG or m.startswith(PKG + "."):
            raise RuntimeError("happysimulator imported before the PyVC loader was installed")
    sys.dont_write_bytecode = True
    sys.meta_path.insert(0, _Finder())
    _installed = True


def declare_loop(relpath, qualname, ordinal, spec):
    for mod, rp in LOADED.items():
        if rp == relpath:
            raise SpecError(f"loop contract for {relpath} declared after the module was imported")
    LOOP_SPECS[(relpath, qualname, ordinal)] = spec


def declare_ghost(relpath, qualname, pattern, code, where="after"):
    for mod, rp in LOADED.items():
        if rp == relpath:
            raise SpecError(f"ghost statement for {relpath} declared after the module was imported")
    GHOST_STMTS.setdefault((relpath, qualname), []).append((pattern, code, where))

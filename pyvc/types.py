"""Type descriptors: each maps a Python-level value to ONE z3 sort (datatypes where needed)
and converts between z3 terms and the Python-side symbolic values (wrap / unwrap)."""
from __future__ import annotations

import z3

from . import ctx as _ctx
from .ctx import OutOfReach
from .sym import MARK, SymBool, SymInt, SymReal, SymStr, mk_bool, mk_num, num_term, real_val, to_z3_bool

_dt_cache = {}


def _c():
    return _ctx.cur()


class Ty:
    name = "?"

    def sort(self):
        raise NotImplementedError

    def wrap(self, term, loc=None):
        raise NotImplementedError

    def unwrap(self, v):
        raise NotImplementedError

    def fresh(self, base):
        t = _c().fresh(base, self.sort())
        self.assume_wf(t)
        return self.wrap(t)

    def fresh_term(self, base):
        t = _c().fresh(base, self.sort())
        self.assume_wf(t)
        return t

    def assume_wf(self, term):
        pass

    def concretize(self, model, term):
        """Python value for replay from a z3 model."""
        return _py_of(model.eval(term, model_completion=True))

    def __repr__(self):
        return self.name


def _py_of(v):
    if z3.is_int_value(v):
        return v.as_long()
    if z3.is_rational_value(v):
        return float(v.numerator_as_long()) / float(v.denominator_as_long())
    if z3.is_true(v):
        return True
    if z3.is_false(v):
        return False
    if z3.is_string_value(v):
        return v.as_string()
    if z3.is_algebraic_value(v):
        return float(v.approx(20).as_fraction())
    return str(v)


class _TInt(Ty):
    name = "Int"

    def sort(self):
        return z3.IntSort()

    def wrap(self, term, loc=None):
        term = z3.simplify(term)
        if z3.is_int_value(term):
            return term.as_long()
        return SymInt(term)

    def unwrap(self, v):
        t, real = num_term(v)
        if real:
            raise OutOfReach("real value stored where an Int is declared")
        return t


class _TReal(Ty):
    name = "Real"

    def sort(self):
        return z3.RealSort()

    def wrap(self, term, loc=None):
        return SymReal(term)

    def unwrap(self, v):
        t, real = num_term(v)
        return t if real else z3.ToReal(t)


class _TBool(Ty):
    name = "Bool"

    def sort(self):
        return z3.BoolSort()

    def wrap(self, term, loc=None):
        return mk_bool(term)

    def unwrap(self, v):
        return to_z3_bool(v)


class _TStr(Ty):
    name = "Str"

    def sort(self):
        return z3.StringSort()

    def wrap(self, term, loc=None):
        term = z3.simplify(term)
        if z3.is_string_value(term):
            return term.as_string()
        return SymStr(term)

    def unwrap(self, v):
        if isinstance(v, SymStr):
            return v.t
        if isinstance(v, str):
            if MARK in v:
                raise OutOfReach("text formatted from a symbolic value through the C API is used as data")
            return z3.StringVal(v)
        raise OutOfReach(f"non-string {type(v).__name__} stored where Str is declared")


AnySort = z3.DeclareSort("Any")


class SymAny:
    """Opaque value: only equality is observable."""
    __slots__ = ("t",)

    def __init__(self, t):
        self.t = t

    def __eq__(self, o):
        if isinstance(o, SymAny):
            return mk_bool(self.t == o.t)
        return False

    def __ne__(self, o):
        if isinstance(o, SymAny):
            return mk_bool(self.t != o.t)
        return True

    def __hash__(self):
        raise OutOfReach("hash of opaque symbolic value")

    def __bool__(self):
        raise OutOfReach("truth value of an opaque symbolic value")

    def __repr__(self):
        return f"SymAny({self.t})"

    def __format__(self, s):
        return "<any>"


class _TAny(Ty):
    name = "Any"

    def sort(self):
        return AnySort

    def wrap(self, term, loc=None):
        return SymAny(term)

    def unwrap(self, v):
        if isinstance(v, SymAny):
            return v.t
        raise OutOfReach(f"{type(v).__name__} stored where an opaque Any is declared")

    def concretize(self, model, term):
        return "any:" + str(model.eval(term, model_completion=True))


Int, Real, Bool, Str, Any = _TInt(), _TReal(), _TBool(), _TStr(), _TAny()


# ---------------------------------------------------------------------------- Opt
class Opt(Ty):
    def __init__(self, inner):
        self.inner = inner
        self.name = f"Opt({inner.name})"
        key = ("opt", str(inner.sort()))
        if key not in _dt_cache:
            d = z3.Datatype(f"Opt_{_mangle(inner.sort())}")
            d.declare("none")
            d.declare("some", ("val", inner.sort()))
            _dt_cache[key] = d.create()
        self.dt = _dt_cache[key]

    def sort(self):
        return self.dt

    def wrap(self, term, loc=None):
        term = z3.simplify(term)
        if _c().branch(self.dt.is_none(term), site=None):
            return None
        return self.inner.wrap(self.dt.val(term), loc)

    def unwrap(self, v):
        if v is None:
            return self.dt.none
        return self.dt.some(self.inner.unwrap(v))

    def assume_wf(self, term):
        pass

    def concretize(self, model, term):
        v = model.eval(term, model_completion=True)
        if z3.is_true(model.eval(self.dt.is_none(v), model_completion=True)):
            return None
        return self.inner.concretize(model, self.dt.val(v))


def _mangle(s):
    return "".join(ch if ch.isalnum() else "_" for ch in str(s))


# ---------------------------------------------------------------------------- Tuple
class Tuple(Ty):
    def __init__(self, *elems):
        self.elems = elems
        self.name = "Tuple(" + ",".join(e.name for e in elems) + ")"
        key = ("tup",) + tuple(str(e.sort()) for e in elems)
        if key not in _dt_cache:
            d = z3.Datatype("Tup_" + "_".join(_mangle(e.sort()) for e in elems))
            d.declare("mk", *[(f"f{i}", e.sort()) for i, e in enumerate(elems)])
            _dt_cache[key] = d.create()
        self.dt = _dt_cache[key]

    def sort(self):
        return self.dt

    def acc(self, i):
        return getattr(self.dt, f"f{i}")

    def wrap(self, term, loc=None):
        return tuple(e.wrap(self.acc(i)(term)) for i, e in enumerate(self.elems))

    def unwrap(self, v):
        if not isinstance(v, (tuple, list)) or len(v) != len(self.elems):
            raise OutOfReach(f"value {type(v).__name__} stored where {self.name} is declared")
        return self.dt.mk(*[e.unwrap(x) for e, x in zip(self.elems, v)])

    def concretize(self, model, term):
        return tuple(e.concretize(model, self.acc(i)(term)) for i, e in enumerate(self.elems))


# ---------------------------------------------------------------------------- value classes
class Val(Ty):
    """Immutable value class (e.g. Instant, Duration): a real instance whose fields hold
    symbolic values; stored flattened as a datatype.  `variants`: list of (pyclass) sharing the
    same fields, distinguished by a tag (e.g. Instant / _InfiniteInstant)."""

    instances = []

    def __init__(self, name, variants, fields):
        Val.instances.append(self)
        self.name = name
        self.variants = variants          # list of python classes (resolved lazily ok)
        self.fields = fields              # list of (fname, Ty)
        key = ("val", name)
        if key not in _dt_cache:
            d = z3.Datatype("V_" + name)
            d.declare("mk", ("tag", z3.IntSort()), *[(f, t.sort()) for f, t in fields])
            _dt_cache[key] = d.create()
        self.dt = _dt_cache[key]

    def sort(self):
        return self.dt

    def assume_wf(self, term):
        _c().assume(z3.And(self.dt.tag(term) >= 0, self.dt.tag(term) < len(self.variants)))

    def wrap(self, term, loc=None):
        term = z3.simplify(term)
        if len(self.variants) == 1:
            k = 0
        else:
            tag = self.dt.tag(term)
            k = _c().choose([tag == i for i in range(len(self.variants))] , site="tag:" + self.name)
        cls = self.variants[k]
        obj = object.__new__(cls)
        for f, t in self.fields:
            object.__setattr__(obj, f, t.wrap(getattr(self.dt, f)(term)))
        return obj

    def unwrap(self, v):
        for k, cls in enumerate(self.variants):
            if type(v) is cls:
                break
        else:
            raise OutOfReach(f"{type(v).__name__} stored where value class {self.name} is declared")
        return self.dt.mk(z3.IntVal(k), *[t.unwrap(getattr(v, f)) for f, t in self.fields])

    def concretize(self, model, term):
        v = model.eval(term, model_completion=True)
        k = model.eval(self.dt.tag(v), model_completion=True).as_long()
        k = min(max(k, 0), len(self.variants) - 1)
        return {"__val__": self.variants[k].__name__,
                **{f: t.concretize(model, getattr(self.dt, f)(v)) for f, t in self.fields}}


# ---------------------------------------------------------------------------- opaque callables
class Fn(Ty):
    """A callable stored in a field (callback, clock reader): every call returns an arbitrary
    value of type `returns` (so a proof holds for every behaviour of the callable) and has no
    effect on modelled state (assumption listed per use)."""

    def __init__(self, returns=None, name="fn"):
        self.returns = returns
        self.name = f"Fn(->{returns.name if returns else 'None'})"
        self._n = name

    def sort(self):
        return z3.IntSort()

    def wrap(self, term, loc=None):
        ret = self.returns
        nm = self._n

        def call(*a, **k):
            if ret is None:
                return None
            return ret.fresh(f"{nm}_ret")
        call._pyvc_fn_term = term
        return call

    def unwrap(self, v):
        t = getattr(v, "_pyvc_fn_term", None)
        if t is not None:
            return t
        if callable(v):
            return _c().fresh("fnval", z3.IntSort())
        raise OutOfReach(f"{type(v).__name__} stored where a callable is declared")

    def concretize(self, model, term):
        return "<callable>"

"""Type descriptors: each maps a Python-level value to ONE z3 sort (datatypes where needed)
and converts between z3 terms and the Python-side symbolic values (wrap / unwrap)."""
from __future__ import annotations

import z3

from . import ctx as _ctx
from .ctx import OutOfReach
from .sym import MARK, SymBool, SymInt, SymReal, SymStr, mk_bool, mk_num, num_term, real_val, to_z3_bool

_dt_cache = {}


def _c():
    return _ctx.cur()


class Ty:
    name = "?"

    def sort(self):
        raise NotImplementedError

    def wrap(self, term, loc=None):
        raise NotImplementedError

    def unwrap(self, v):
        raise NotImplementedError

    def fresh(self, base):
        t = _c().fresh(base, self.sort())
        self.assume_wf(t)
        return self.wrap(t)

    def fresh_term(self, base):
        t = _c().fresh(base, self.sort())
        self.assume_wf(t)
        return t

    def assume_wf(self, term):
        pass

    def concretize(self, model, term):
        """Python value for replay from a z3 model."""
        return _py_of(model.eval(term, model_completion=True))

    def __repr__(self):
        return self.name


def _py_of(v):
    if z3.is_int_value(v):
        return v.as_long()
    if z3.is_rational_value(v):
        return float(v.numerator_as_long()) / float(v.denominator_as_long())
    if z3.is_true(v):
        return True
    if z3.is_false(v):
        return False
    if z3.is_string_value(v):
        return v.as_string()
    if z3.is_algebraic_value(v):
        return float(v.approx(20).as_fraction())
    return str(v)


class _TInt(Ty):
    name = "Int"

    def sort(self):
        return z3.IntSort()

    def wrap(self, term, loc=None):
        term = z3.simplify(term)
        if z3.is_int_value(term):
            return term.as_long()
        return SymInt(term)

    def unwrap(self, v):
        t, real = num_term(v)
        if real:
            raise OutOfReach("real value stored where an Int is declared")
        return t


class _TReal(Ty):
    name = "Real"

    def sort(self):
        return z3.RealSort()

    def wrap(self, term, loc=None):
        return SymReal(term)

    def unwrap(self, v):
        t, real = num_term(v)
        return t if real else z3.ToReal(t)


class _TBool(Ty):
    name = "Bool"

    def sort(self):
        return z3.BoolSort()

    def wrap(self, term, loc=None):
        return mk_bool(term)

    def unwrap(self, v):
        return to_z3_bool(v)


class _TStr(Ty):
    name = "Str"

    def sort(self):
        return z3.StringSort()

    def wrap(self, term, loc=None):
        term = z3.simplify(term)
        if z3.is_string_value(term):
            return term.as_string()
        return SymStr(term)

    def unwrap(self, v):
        if isinstance(v, SymStr):
            return v.t
        if isinstance(v, str):
            if MARK in v:
                raise OutOfReach("text formatted from a symbolic value through the C API is used as data")
            return z3.StringVal(v)
        raise OutOfReach(f"non-string {type(v).__name__} stored where Str is declared")


AnySort = z3.DeclareSort("Any")


class SymAny:
    """Opaque value: only equality is observable."""
    __slots__ = ("t",)

    def __init__(self, t):
        self.t = t

    def __eq__(self, o):
        if isinstance(o, SymAny):
            return mk_bool(self.t == o.t)
        # an opaque value compared with a typed / concrete one: the opaque value MAY be that value (a constant
        # `False` here would silently drop the equal branch of the code under verification); the other side is
        # injected into the opaque sort (None, bools, numbers, strings, references, small tuples, one constant per
        # unmodelled object) and the answer is a symbolic equality
        return mk_bool(self.t == Any.unwrap(o))

    def __ne__(self, o):
        if isinstance(o, SymAny):
            return mk_bool(self.t != o.t)
        return mk_bool(self.t != Any.unwrap(o))

    def __hash__(self):
        raise OutOfReach("hash of opaque symbolic value")

    def __bool__(self):
        # truthiness of an opaque value: None is falsy, anything else may be either (0, "", [] ... are
        # values too) - an uninterpreted predicate, so a proof holds for every content of the value
        truthy = z3.Function("any_truthy", AnySort, z3.BoolSort())
        return _c().branch(z3.And(self.t != z3.Const("any_none", AnySort), truthy(self.t)), site="anybool")

    def __repr__(self):
        return f"SymAny({self.t})"

    def __format__(self, s):
        return MARK

    # -- an opaque value used as a dict (event context "metadata") or as an int ("weight"):
    #    uninterpreted projections, so the proof holds for every content of the value
    def get(self, key, default=None):
        kt = Str.unwrap(key)
        has = z3.Function("any_has", AnySort, z3.StringSort(), z3.BoolSort())
        getf = z3.Function("any_get", AnySort, z3.StringSort(), AnySort)
        if _c().branch(has(self.t, kt), site="anyget"):
            return SymAny(getf(self.t, kt))
        return default

    def _as_int(self):
        f = z3.Function("any_int", AnySort, z3.IntSort())
        return SymInt(f(self.t))

    def __add__(self, o): return self._as_int() + o
    def __radd__(self, o): return o + self._as_int()
    def __sub__(self, o): return self._as_int() - o
    def __rsub__(self, o): return o - self._as_int()
    def __mul__(self, o): return self._as_int() * o
    def __rmul__(self, o): return o * self._as_int()
    def __lt__(self, o): return self._as_int() < o
    def __le__(self, o): return self._as_int() <= o
    def __gt__(self, o): return self._as_int() > o
    def __ge__(self, o): return self._as_int() >= o


class _TAny(Ty):
    name = "Any"

    def sort(self):
        return AnySort

    def wrap(self, term, loc=None):
        return SymAny(term)

    _inj = {}
    _objs = {}

    def _f(self, name, sort):
        if name not in self._inj:
            self._inj[name] = z3.Function("any_of_" + name, sort, AnySort)
        return self._inj[name]

    def unwrap(self, v):
        """Any value can be stored in an opaque slot: typed values are injected by an
        (injective) tag function, unmodelled Python objects become one constant per object."""
        if isinstance(v, SymAny):
            return v.t
        if v is None:
            return z3.Const("any_none", AnySort)
        if isinstance(v, (SymBool, bool)):
            return self._f("bool", z3.BoolSort())(to_z3_bool(v))
        if isinstance(v, (SymInt, int)):
            return self._f("int", z3.IntSort())(num_term(v)[0])
        if isinstance(v, (SymReal, float)):
            if isinstance(v, float) and v != v or v in (float("inf"), float("-inf")):
                return z3.Const(f"any_float_{v}", AnySort)
            return self._f("real", z3.RealSort())(num_term(v)[0])
        if isinstance(v, (SymStr, str)):
            return self._f("str", z3.StringSort())(Str.unwrap(v))
        ref = getattr(v, "_ref", None)
        if ref is not None and hasattr(v, "_cls"):
            return self._f("ref", z3.IntSort())(ref)
        if isinstance(v, (tuple, list)) and len(v) <= 6:
            # small concrete-length tuples/lists: structural (congruent) encoding
            name = f"{'tuple' if isinstance(v, tuple) else 'list'}{len(v)}"
            if len(v) == 0:
                return z3.Const("any_" + name, AnySort)
            if name not in self._inj:
                self._inj[name] = z3.Function("any_" + name, *([AnySort] * len(v)), AnySort)
            return self._inj[name](*[self.unwrap(x) for x in v])
        k = id(v)
        if k not in self._objs:
            self._objs[k] = (v, z3.Const(f"any_obj{len(self._objs)}", AnySort))
        return self._objs[k][1]

    def concretize(self, model, term):
        return "any:" + str(model.eval(term, model_completion=True))


Int, Real, Bool, Str, Any = _TInt(), _TReal(), _TBool(), _TStr(), _TAny()


# ---------------------------------------------------------------------------- Opt
class _OptLoc:
    """location of the payload of an Opt value stored at `parent` (for mutable payloads)"""
    __slots__ = ("parent", "dt")

    def __init__(self, parent, dt):
        self.parent, self.dt = parent, dt

    def get(self):
        return self.dt.val(self.parent.get())

    def set(self, t):
        self.parent.set(self.dt.some(t))


class Opt(Ty):
    def __init__(self, inner):
        self.inner = inner
        self.name = f"Opt({inner.name})"
        key = ("opt", str(inner.sort()))
        if key not in _dt_cache:
            d = z3.Datatype(f"Opt_{_mangle(inner.sort())}")
            d.declare("none")
            d.declare("some", ("val", inner.sort()))
            _dt_cache[key] = d.create()
        self.dt = _dt_cache[key]

    def sort(self):
        return self.dt

    def wrap(self, term, loc=None):
        term = z3.simplify(term)
        if _c().branch(self.dt.is_none(term), site=None):
            return None
        return self.inner.wrap(self.dt.val(term), _OptLoc(loc, self.dt) if loc is not None else None)

    def unwrap(self, v):
        if v is None:
            return self.dt.none
        return self.dt.some(self.inner.unwrap(v))

    def assume_wf(self, term):
        pass

    def concretize(self, model, term):
        v = model.eval(term, model_completion=True)
        if z3.is_true(model.eval(self.dt.is_none(v), model_completion=True)):
            return None
        return self.inner.concretize(model, self.dt.val(v))


class _RealInf(Opt):
    """float that may be +inf (capacities, limits): inf | finite real"""

    def __init__(self):
        Opt.__init__(self, Real)
        self.name = "RealInf"

    def wrap(self, term, loc=None):
        v = Opt.wrap(self, term, loc)
        return float("inf") if v is None else v

    def unwrap(self, v):
        if isinstance(v, float) and v == float("inf"):
            return self.dt.none
        return self.dt.some(Real.unwrap(v))

    def concretize(self, model, term):
        v = Opt.concretize(self, model, term)
        return float("inf") if v is None else v


class _IntInf(Opt):
    """a limit that is +inf (float('inf')) or an integer count (capacities): inf | int.
    Using it for a float-annotated capacity field is the configuration assumption "capacities are
    integral or infinite"."""

    def __init__(self):
        Opt.__init__(self, Int)
        self.name = "IntInf"

    def wrap(self, term, loc=None):
        v = Opt.wrap(self, term, loc)
        return float("inf") if v is None else v

    def unwrap(self, v):
        if isinstance(v, float) and v == float("inf"):
            return self.dt.none
        if isinstance(v, float) and v == int(v):
            v = int(v)
        return self.dt.some(Int.unwrap(v))

    def concretize(self, model, term):
        v = Opt.concretize(self, model, term)
        return float("inf") if v is None else v


def _mangle(s):
    return "".join(ch if ch.isalnum() else "_" for ch in str(s))


# ---------------------------------------------------------------------------- Tuple
class Tuple(Ty):
    def __init__(self, *elems):
        self.elems = elems
        self.name = "Tuple(" + ",".join(e.name for e in elems) + ")"
        key = ("tup",) + tuple(str(e.sort()) for e in elems)
        if key not in _dt_cache:
            d = z3.Datatype("Tup_" + "_".join(_mangle(e.sort()) for e in elems))
            d.declare("mk", *[(f"f{i}", e.sort()) for i, e in enumerate(elems)])
            _dt_cache[key] = d.create()
        self.dt = _dt_cache[key]

    def sort(self):
        return self.dt

    def acc(self, i):
        return getattr(self.dt, f"f{i}")

    def wrap(self, term, loc=None):
        return tuple(e.wrap(self.acc(i)(term)) for i, e in enumerate(self.elems))

    def unwrap(self, v):
        if not isinstance(v, (tuple, list)) or len(v) != len(self.elems):
            raise OutOfReach(f"value {type(v).__name__} stored where {self.name} is declared")
        return self.dt.mk(*[e.unwrap(x) for e, x in zip(self.elems, v)])

    def concretize(self, model, term):
        return tuple(e.concretize(model, self.acc(i)(term)) for i, e in enumerate(self.elems))


# ---------------------------------------------------------------------------- value classes
class Val(Ty):
    """Immutable value class (e.g. Instant, Duration): a real instance whose fields hold
    symbolic values; stored flattened as a datatype.  `variants`: list of (pyclass) sharing the
    same fields, distinguished by a tag (e.g. Instant / _InfiniteInstant)."""

    instances = []

    def __init__(self, name, variants, fields):
        Val.instances.append(self)
        self.name = name
        self.variants = variants          # list of python classes (resolved lazily ok)
        self.fields = fields              # list of (fname, Ty)
        key = ("val", name)
        if key not in _dt_cache:
            d = z3.Datatype("V_" + name)
            d.declare("mk", ("tag", z3.IntSort()), *[(f, t.sort()) for f, t in fields])
            _dt_cache[key] = d.create()
        self.dt = _dt_cache[key]

    def sort(self):
        return self.dt

    def assume_wf(self, term):
        _c().assume(z3.And(self.dt.tag(term) >= 0, self.dt.tag(term) < len(self.variants)))

    wf_fn = None        # optional typing invariant of the value class: fn(dt, term) -> z3 Bool

    def wrap(self, term, loc=None):
        term = z3.simplify(term)
        if self.wf_fn is not None:
            c = _c()
            key = ("valwf", self.name, term.get_id())
            if key not in c._pool_seen:
                c._pool_seen.add(key)
                c.assume(self.wf_fn(self.dt, term))
        if len(self.variants) == 1:
            k = 0
        else:
            tag = self.dt.tag(term)
            k = _c().choose([tag == i for i in range(len(self.variants))] , site="tag:" + self.name)
        cls = self.variants[k]
        obj = object.__new__(cls)
        for f, t in self.fields:
            object.__setattr__(obj, f, t.wrap(getattr(self.dt, f)(term)))
        return obj

    def unwrap(self, v):
        for k, cls in enumerate(self.variants):
            if type(v) is cls:
                break
        else:
            raise OutOfReach(f"{type(v).__name__} stored where value class {self.name} is declared")
        return self.dt.mk(z3.IntVal(k), *[t.unwrap(getattr(v, f)) for f, t in self.fields])

    def concretize(self, model, term):
        v = model.eval(term, model_completion=True)
        k = model.eval(self.dt.tag(v), model_completion=True).as_long()
        k = min(max(k, 0), len(self.variants) - 1)
        return {"__val__": self.variants[k].__name__,
                **{f: t.concretize(model, getattr(self.dt, f)(v)) for f, t in self.fields}}


# ---------------------------------------------------------------------------- opaque callables
class Fn(Ty):
    """A callable stored in a field (callback, clock reader): every call returns an arbitrary
    value of type `returns` (so a proof holds for every behaviour of the callable) and has no
    effect on modelled state (assumption listed per use)."""

    def __init__(self, returns=None, name="fn", effect="none", keeps=()):
        """effect="none": a pure function of its arguments (keys, clock readers, predicates);
        effect="world": arbitrary user code (callbacks, hooks) - every call havocs the heap."""
        self.returns = returns
        self.name = f"Fn(->{returns.name if returns else 'None'})"
        self._n = name
        self.effect = effect
        self.keeps = [tuple(k) for k in keeps]      # frame of a world-effect callable: fields it does not write

    def sort(self):
        return z3.IntSort()

    # callables created by the code under test (closures, bound methods) get a concrete negative
    # id and are returned as themselves when read back; symbolic ids denote unknown callables
    _table = {}

    def wrap(self, term, loc=None):
        term = z3.simplify(term)
        if z3.is_int_value(term) and term.as_long() in Fn._table:
            return Fn._table[term.as_long()]
        if not z3.is_int_value(term) and Fn._table:
            # not syntactically a known closure: does the path condition force it to be one?
            c = _c()
            s = c.solver
            if s.check() == z3.sat:
                k = s.model().eval(term, model_completion=True)
                if z3.is_int_value(k) and k.as_long() in Fn._table:
                    s.push()
                    s.add(term != k)
                    forced = s.check() == z3.unsat
                    s.pop()
                    if forced:
                        return Fn._table[k.as_long()]
        ret = self.returns
        nm = self._n
        effect = getattr(self, "effect", "none")

        def call(*a, **k):
            if effect == "world":
                # unknown user callable: anything on the heap may change (class invariants of the
                # objects in focus are preserved - it goes through public APIs)
                c = _c()
                keep = {}
                for key in getattr(self, "keeps", ()):
                    key = tuple(key)
                    if key in c.heap.st.arrays:
                        keep[key] = (c.heap.st.arrays[key], c.heap.st.key_epoch.get(key, c.heap.st.base_epoch))
                c.heap.havoc(None)
                for key, (arr, ep) in keep.items():
                    c.heap.st.arrays[key] = arr
                    c.heap.st.key_epoch[key] = ep
                from .verify import check_invariants
                for o in getattr(c, "focus_objects", ()):
                    check_invariants(c, o, "after-opaque-call", assume=True)
            r = None if ret is None else ret.fresh(f"{nm}_ret")
            # ghost log of calls of unknown callables: (callable id term, args, kwargs, result)
            _c().ghost_args.setdefault("fn_calls", []).append((term, a, k, r))
            return r
        call._pyvc_fn_term = term
        return call

    def unwrap(self, v):
        t = getattr(v, "_pyvc_fn_term", None)
        if t is not None:
            return t
        if callable(v):
            n = -(len(Fn._table) + 1)
            Fn._table[n] = v
            try:
                v._pyvc_fn_term = z3.IntVal(n)
            except AttributeError:
                pass
            return z3.IntVal(n)
        raise OutOfReach(f"{type(v).__name__} stored where a callable is declared")

    def assume_wf(self, term):
        _c().assume(term > 0)       # unknown callables: positive ids (never alias a known closure)

    def concretize(self, model, term):
        return "<callable>"


RealInf = _RealInf()
IntInf = _IntInf()

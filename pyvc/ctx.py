"""Path exploration context: decisions, path condition, solvers, obligations.

Quantifiers.  Universally quantified *assumptions* (class invariants, loop invariants, callee
postconditions, definitional axioms of the builtin models) are kept apart from the quantifier-free
path condition.  Each such fact is also instantiated by hand on every relevant ground term of its
sort (keys used in map/set operations, arguments, skolem constants of goals) - a small,
predictable E-matching.  An obligation `forall x. P(x)` is skolemised.  Discharge is two-stage:
(1) quantifier-free pc + instances; `unsat` => PROVED (fewer assumptions, hence sound);
(2) otherwise the full pc including the quantified facts; `unsat` => PROVED, `sat` => REFUTED;
`unknown` after a stage-1 `sat` => REFUTED with the stage-1 model marked `candidate`.
"""
from __future__ import annotations

import hashlib
import linecache
import os
import sys
import time

import z3

REPO = os.environ.get("PYVC_REPO", "/repo")
# Solver budgets.  The deciding budget is z3's deterministic resource limit (rlimit), so that a
# verdict does not flip when the machine is loaded; the wall-clock timeout is only a backstop.
OB_TIMEOUT_MS = int(os.environ.get("PYVC_OB_TIMEOUT_MS", "180000"))
OB_RLIMIT = int(os.environ.get("PYVC_OB_RLIMIT", "40000000"))
FEAS_RLIMIT = int(os.environ.get("PYVC_FEAS_RLIMIT", "4000000"))


class PathEnd(Exception):
    """The current path stops here (infeasible, cut by a loop invariant, pruned)."""


class OutOfReach(Exception):
    """The code used a construct the executor does not model. Never a pass."""


class SpecError(Exception):
    """The specification itself is broken (vacuous precondition, bad clause)."""


_cur: "Ctx | None" = None


def cur() -> "Ctx":
    if _cur is None:
        raise RuntimeError("no symbolic context active")
    return _cur


def active() -> bool:
    return _cur is not None


def set_cur(c):
    global _cur
    _cur = c


class Ctx:
    """One path of one symbolic run.  Re-created for each path; `prefix` replays decisions."""

    FEAS_TIMEOUT_MS = 30000
    dry = False
    keep_smt = False

    def __init__(self, prefix, stats):
        self.prefix = list(prefix)
        self.pos = 0
        self.decisions = []          # list of ints (choice index)
        self.pc = []                 # quantifier-free part of the path condition
        self.qfacts = []             # universally quantified assumptions (z3 terms)
        self.facts = []              # (sort key, ty, fn(term) -> value) hand-instantiated facts
        self.pool = {}               # sort key -> [ground terms]
        self._pool_seen = set()
        self.solver = z3.Solver()
        self.solver.set("timeout", self.FEAS_TIMEOUT_MS)
        self.solver.set("rlimit", FEAS_RLIMIT)
        self.sig = []                # path signature parts (site, choice)
        self.pending = []            # sibling prefixes discovered on this path
        self.stats = stats
        self.heap = None             # set by heap.Heap
        self.obligations = []
        self.names = {}
        self.spec_mode = 0
        self.inputs = []
        self.pre_state = None
        self.ghost_args = {}

    # ------------------------------------------------------------------ naming
    def fresh(self, base, sort):
        n = self.names.get(base, 0)
        self.names[base] = n + 1
        name = base if n == 0 else f"{base}!{n}"
        return z3.Const(name, sort)

    # ------------------------------------------------------------------ assumptions
    def assume(self, term):
        if isinstance(term, bool):
            if not term:
                raise PathEnd("assumed False")
            return
        term = z3.simplify(term)
        if z3.is_true(term):
            return
        if z3.is_false(term):
            raise PathEnd("assumed False")
        if z3.is_quantifier(term) and term.is_forall():
            self.qfacts.append(term)
            return
        if z3.is_and(term):
            for ch in term.children():
                self.assume(ch)
            return
        self.pc.append(term)
        self.solver.add(term)

    def assume_value(self, v):
        """Assume a clause value; top-level `forall`s become hand-instantiated facts."""
        from .sym import to_z3_bool
        k = getattr(v, "_q_kind", None)
        if k == "forall":
            self.qfacts.append(v.t)
            key = str(v.ty.sort())
            # the fact speaks about the heap as it is NOW: later instantiations must read this state
            snap = self.heap.snapshot() if self.heap is not None else None
            self.facts.append((key, v.ty, v.body, snap))
            for t in list(self.pool.get(key, ())):
                self._instantiate(v.ty, v.body, t, snap)
            return
        if k == "conj":
            for p in v.parts:
                self.assume_value(p)
            return
        self.assume(to_z3_bool(v))

    def _instantiate(self, ty, body, term, snap):
        from .spec import _wrap_quant
        self.spec_mode += 1
        self.inst_depth = getattr(self, "inst_depth", 0) + 1     # >0 while a body is evaluated as an assumption instance
        live = self.heap.st if self.heap is not None else None
        if snap is not None:
            self.heap.st = snap.copy()
        try:
            r = body(_wrap_quant(ty, term))
            # nested foralls produced by the body also speak about the snapshot state
            self._assume_in_state(r)
        finally:
            if snap is not None:
                self.heap.st = live
            self.spec_mode -= 1
            self.inst_depth -= 1

    def _assume_in_state(self, r):
        self.assume_value(r)

    def note_term(self, term, ty=None):
        """Register a ground term as relevant: every fact of its sort is instantiated on it."""
        key = str(term.sort())
        h = (key, term.get_id())
        if h in self._pool_seen:
            return
        self._pool_seen.add(h)
        self.pool.setdefault(key, []).append(term)
        for k, fty, body, snap in list(self.facts):
            if k == key:
                self._instantiate(fty, body, term, snap)

    def feasible(self):
        t0 = time.time()
        r = self.solver.check()
        self.stats["feas_calls"] = self.stats.get("feas_calls", 0) + 1
        self.stats["feas_time"] = self.stats.get("feas_time", 0.0) + time.time() - t0
        return r != z3.unsat        # unknown => keep the path (sound)

    # ------------------------------------------------------------------ branching
    def choose(self, conds, site=None):
        """conds: list of z3 Bool, assumed exhaustive.  Returns the index taken on this path;
        registers the feasible siblings for later exploration."""
        n = len(conds)
        if self.pos < len(self.prefix):
            k = self.prefix[self.pos]
            self.pos += 1
            self.decisions.append(k)
            self.pc.append(conds[k])
            self.solver.add(conds[k])
            if site is not None:
                self.sig.append((site, k))
            return k
        feas = []
        for k in range(n):
            c = z3.simplify(conds[k])
            if z3.is_false(c):
                continue
            if z3.is_true(c):
                feas.append(k)
                continue
            self.solver.push()
            self.solver.add(c)
            ok = self.feasible()
            self.solver.pop()
            if ok:
                feas.append(k)
        if not feas:
            raise PathEnd("no feasible branch")
        k0 = feas[0]
        for k in feas[1:]:
            self.pending.append(self.decisions + [k])
        self.pos += 1
        self.prefix.append(k0)
        self.decisions.append(k0)
        self.pc.append(conds[k0])
        self.solver.add(conds[k0])
        if site is not None:
            self.sig.append((site, k0))
        return k0

    def branch(self, cond, site=None):
        """Fork on a z3 Bool; returns the Python bool taken on this path."""
        cond = z3.simplify(cond)
        if z3.is_true(cond):
            return True
        if z3.is_false(cond):
            return False
        if site is None:
            site = code_site()
        k = self.choose([cond, z3.Not(cond)], site)
        return k == 0

    def signature(self):
        return hashlib.sha1(repr(self.sig).encode()).hexdigest()[:10]

    # ------------------------------------------------------------------ obligations
    def _goal_term(self, v):
        """Skolemise top-level foralls of a goal; returns a z3 Bool."""
        from .sym import to_z3_bool
        from .spec import _wrap_quant
        k = getattr(v, "_q_kind", None)
        if k == "forall":
            sk = self.fresh("sk_" + v.name, v.ty.sort())
            self.note_term(sk)
            self.spec_mode += 1
            try:
                r = v.body(_wrap_quant(v.ty, sk))
            finally:
                self.spec_mode -= 1
            return self._goal_term(r)
        if k == "conj":
            return z3.And(*[self._goal_term(p) for p in v.parts])
        t = to_z3_bool(v)
        self._note_indices(t)
        return t

    def _note_indices(self, term):
        """Ground index terms of select applications in a goal become instantiation terms."""
        if not self.facts:
            return
        sorts = {f[0] for f in self.facts}
        seen = set()
        stack = [term]
        found = []
        while stack and len(seen) < 4000:
            t = stack.pop()
            i = t.get_id()
            if i in seen:
                continue
            seen.add(i)
            if z3.is_quantifier(t):
                continue
            if z3.is_app(t):
                if z3.is_select(t):
                    idx = t.arg(1)
                    if str(idx.sort()) in sorts:
                        found.append(idx)
                stack.extend(t.children())
        for idx in found:
            self.note_term(idx)

    def oblige(self, name, value, kind="post", info=None):
        """Record and discharge one proof obligation: pc ==> value.  Afterwards the clause is
        assumed (assert-then-assume), so one failure does not cascade."""
        t0 = time.time()
        term = self._goal_term(value)
        simp = z3.simplify(term)
        rec = {"name": name, "kind": kind, "path": self.signature(), "verdict": None, "time_s": 0.0,
               "solver": "z3", "model": None, "smt": None, "goal": None}
        if info:
            rec["info"] = info
        gtxt = str(simp)
        rec["goal"] = gtxt if len(gtxt) < 600 else gtxt[:600] + "..."
        rec["trivial"] = bool(z3.is_true(simp))
        if z3.is_true(simp):
            rec["verdict"] = "PROVED"
        elif self.dry:
            rec["verdict"] = "SKIPPED"
        else:
            s = self.solver
            s.push()
            s.add(z3.Not(term))
            s.set("timeout", OB_TIMEOUT_MS if kind != "canary" else 20000)
            s.set("rlimit", OB_RLIMIT if kind != "canary" else FEAS_RLIMIT)
            r1 = s.check()
            m1 = s.model() if r1 == z3.sat else None
            if self.keep_smt:
                rec["smt"] = s.to_smt2()
            s.pop()
            s.set("timeout", self.FEAS_TIMEOUT_MS)
            s.set("rlimit", FEAS_RLIMIT)
            r = r1
            rec["solver"] = "z3/qf+instances"
            if r1 != z3.unsat and kind != "canary" and (self.qfacts or r1 == z3.unknown):
                s2 = z3.Solver()
                s2.set("timeout", OB_TIMEOUT_MS)
                s2.set("rlimit", OB_RLIMIT)
                s2.add(*self.pc)
                s2.add(*self.qfacts)
                s2.add(z3.Not(term))
                r2 = s2.check()
                rec["solver"] = "z3/full"
                if r2 == z3.unsat:
                    r = z3.unsat
                elif r2 == z3.sat:
                    r = z3.sat
                    m1 = s2.model()
                else:
                    if r1 == z3.sat:
                        r = z3.sat
                        rec["candidate"] = True      # satisfies every instance, full check unknown
                    else:
                        r = z3.unknown
                        # stage 1 again on a fresh (non-incremental) solver: the incremental core answers
                        # `unknown` on some sequence/array goals that the default tactic decides.  Same
                        # meaning as stage 1: unsat => PROVED; sat => candidate counterexample (additive:
                        # only reached when the verdict would have been UNDECIDED)
                        s3 = z3.Solver()
                        s3.set("timeout", OB_TIMEOUT_MS)
                        s3.set("rlimit", OB_RLIMIT)
                        s3.add(*self.pc)
                        s3.add(z3.Not(term))
                        r3 = s3.check()
                        if r3 == z3.unsat:
                            r = z3.unsat
                            rec["solver"] = "z3/qf+instances(fresh)"
                        elif r3 == z3.sat:
                            r = z3.sat
                            m1 = s3.model()
                            rec["candidate"] = True
                            rec["solver"] = "z3/qf+instances(fresh)"
                        else:
                            # last resort (additive: only reached when the verdict would have been UNDECIDED): the
                            # same query without the array-extensionality axioms, which is what z3's model search
                            # gets lost in on goals over several capacity-bounded maps.  Fewer axioms: unsat is
                            # still a proof; sat is a candidate counterexample (reported REFUTED - never a pass)
                            s4 = z3.Solver()
                            s4.set("timeout", OB_TIMEOUT_MS)
                            s4.set("rlimit", OB_RLIMIT)
                            s4.set("smt.array.extensional", False)
                            s4.add(*self.pc)
                            s4.add(z3.Not(term))
                            r4 = s4.check()
                            if r4 == z3.unsat:
                                r = z3.unsat
                                rec["solver"] = "z3/qf+instances(fresh,no-ext)"
                            elif r4 == z3.sat:
                                r = z3.sat
                                m1 = s4.model()
                                rec["candidate"] = True
                                rec["solver"] = "z3/qf+instances(fresh,no-ext)"
            if r == z3.sat and m1 is not None:
                rec["model"] = self.describe_model(m1)
            rec["verdict"] = "PROVED" if r == z3.unsat else "REFUTED" if r == z3.sat else "UNDECIDED"
        rec["time_s"] = round(time.time() - t0, 4)
        self.obligations.append(rec)
        if kind == "canary":
            return rec
        if not rec["trivial"]:
            self.assume_value(value)
            if rec["verdict"] != "PROVED" and self.solver.check() == z3.unsat:
                raise PathEnd("path ends after failed obligation")
        return rec

    def describe_model(self, model):
        from .replay import decode_model
        try:
            return decode_model(self, model)
        except Exception as e:          # decoding must never mask the verdict
            return {"undecodable": f"{type(e).__name__}: {e}"}


_site_cache = {}


def code_site():
    """Identify the repo source line that asked for a branch (for stable path signatures)."""
    f = sys._getframe(2)
    depth = 0
    while f is not None and depth < 60:
        fn = f.f_code.co_filename
        if fn.startswith(REPO + "/") or "/specs/" in fn:
            key = (fn, f.f_lineno)
            s = _site_cache.get(key)
            if s is None:
                text = linecache.getline(fn, f.f_lineno).strip()
                rel = fn[len(REPO) + 1:] if fn.startswith(REPO) else os.path.basename(fn)
                s = f"{rel}:{f.f_code.co_name}:{hashlib.sha1(text.encode()).hexdigest()[:6]}"
                _site_cache[key] = s
            return s
        f = f.f_back
        depth += 1
    return "?"


def explore(run, max_paths=4000, stats=None):
    """Enumerate all paths of `run(ctx)`.  Returns list of (ctx, outcome) where outcome is
    ('ok', value) | ('pruned', msg) | ('oor', msg).  Raises OutOfReach if max_paths hit."""
    stats = stats if stats is not None else {}
    work = [[]]
    results = []
    stats["_partial"] = results      # completed paths stay reachable if the task is cut short (timeout)
    n = 0
    while work:
        prefix = work.pop()
        n += 1
        if n > max_paths:
            raise OutOfReach(f"more than {max_paths} paths")
        ctx = Ctx(prefix, stats)
        set_cur(ctx)
        stats["_current"] = ctx
        try:
            try:
                v = run(ctx)
                results.append((ctx, ("ok", v)))
            except PathEnd as e:
                results.append((ctx, ("pruned", str(e))))
            except OutOfReach as e:
                results.append((ctx, ("oor", str(e))))
        finally:
            set_cur(None)
        work.extend(ctx.pending)
    stats["paths"] = stats.get("paths", 0) + n
    return results

"""Path exploration context: decisions, path condition, incremental solver."""
from __future__ import annotations

import hashlib
import linecache
import os
import sys
import time

import z3

REPO = os.environ.get("PYVC_REPO", "/repo")


class PathEnd(Exception):
    """The current path stops here (infeasible, cut by a loop invariant, pruned)."""


class OutOfReach(Exception):
    """The code used a construct the executor does not model. Never a pass."""


class SpecError(Exception):
    """The specification itself is broken (vacuous precondition, bad clause)."""


_cur: "Ctx | None" = None


def cur() -> "Ctx":
    if _cur is None:
        raise RuntimeError("no symbolic context active")
    return _cur


def active() -> bool:
    return _cur is not None


def set_cur(c):
    global _cur
    _cur = c


class Ctx:
    """One path of one symbolic run.  Re-created for each path; `prefix` replays decisions."""

    FEAS_TIMEOUT_MS = 3000

    def __init__(self, prefix, stats):
        self.prefix = list(prefix)
        self.pos = 0
        self.decisions = []          # list of ints (choice index)
        self.arity = []
        self.pc = []                 # z3 Bool terms
        self.solver = z3.Solver()
        self.solver.set("timeout", self.FEAS_TIMEOUT_MS)
        self.sig = []                # path signature parts (site, choice)
        self.pending = []            # sibling prefixes discovered on this path
        self.stats = stats
        self.heap = None             # set by heap.Heap
        self.fresh_n = 0
        self.obligations = []        # filled by verify
        self.names = {}
        self.spec_mode = 0           # >0 while evaluating a spec clause
        self.notes = []
        self.ghost_hooks = {}

    # ------------------------------------------------------------------ naming
    def fresh(self, base, sort):
        n = self.names.get(base, 0)
        self.names[base] = n + 1
        name = base if n == 0 else f"{base}!{n}"
        return z3.Const(name, sort)

    # ------------------------------------------------------------------ assumptions
    def assume(self, term):
        if isinstance(term, bool):
            if not term:
                raise PathEnd("assumed False")
            return
        term = z3.simplify(term)
        if z3.is_true(term):
            return
        if z3.is_false(term):
            raise PathEnd("assumed False")
        self.pc.append(term)
        self.solver.add(term)

    def feasible(self):
        t0 = time.time()
        r = self.solver.check()
        self.stats["feas_calls"] = self.stats.get("feas_calls", 0) + 1
        self.stats["feas_time"] = self.stats.get("feas_time", 0.0) + time.time() - t0
        return r != z3.unsat        # unknown => keep the path (sound)

    # ------------------------------------------------------------------ branching
    def choose(self, conds, site=None):
        """conds: list of z3 Bool, assumed exhaustive.  Returns the index taken on this path;
        registers the feasible siblings for later exploration."""
        n = len(conds)
        if self.pos < len(self.prefix):
            k = self.prefix[self.pos]
            self.pos += 1
            self.decisions.append(k)
            self.pc.append(conds[k])
            self.solver.add(conds[k])
            if site is not None:
                self.sig.append((site, k))
            return k
        feas = []
        for k in range(n):
            c = z3.simplify(conds[k])
            if z3.is_false(c):
                continue
            if z3.is_true(c):
                feas.append(k)
                continue
            self.solver.push()
            self.solver.add(c)
            ok = self.feasible()
            self.solver.pop()
            if ok:
                feas.append(k)
        if not feas:
            raise PathEnd("no feasible branch")
        k0 = feas[0]
        for k in feas[1:]:
            self.pending.append(self.decisions + [k])
        self.pos += 1
        self.prefix.append(k0)
        self.decisions.append(k0)
        self.pc.append(conds[k0])
        self.solver.add(conds[k0])
        if site is not None:
            self.sig.append((site, k0))
        return k0

    def branch(self, cond, site=None):
        """Fork on a z3 Bool; returns the Python bool taken on this path."""
        cond = z3.simplify(cond)
        if z3.is_true(cond):
            return True
        if z3.is_false(cond):
            return False
        if site is None:
            site = code_site()
        k = self.choose([cond, z3.Not(cond)], site)
        return k == 0

    def signature(self):
        h = hashlib.sha1(repr(self.sig).encode()).hexdigest()[:10]
        return h


_site_cache = {}


def code_site():
    """Identify the repo source line that asked for a branch (for stable path signatures)."""
    f = sys._getframe(2)
    depth = 0
    while f is not None and depth < 60:
        fn = f.f_code.co_filename
        if fn.startswith(REPO + "/") or "/specs/" in fn:
            key = (fn, f.f_lineno)
            s = _site_cache.get(key)
            if s is None:
                text = linecache.getline(fn, f.f_lineno).strip()
                rel = fn[len(REPO) + 1:] if fn.startswith(REPO) else os.path.basename(fn)
                s = f"{rel}:{f.f_code.co_name}:{hashlib.sha1(text.encode()).hexdigest()[:6]}"
                _site_cache[key] = s
            return s
        f = f.f_back
        depth += 1
    return "?"


def explore(run, max_paths=4000, stats=None):
    """Enumerate all paths of `run(ctx)`.  Returns list of (ctx, outcome) where outcome is
    ('ok', value) | ('pruned', msg) | ('oor', msg).  Raises OutOfReach if max_paths hit."""
    stats = stats if stats is not None else {}
    work = [[]]
    results = []
    n = 0
    while work:
        prefix = work.pop()
        n += 1
        if n > max_paths:
            raise OutOfReach(f"more than {max_paths} paths")
        ctx = Ctx(prefix, stats)
        set_cur(ctx)
        try:
            try:
                v = run(ctx)
                results.append((ctx, ("ok", v)))
            except PathEnd as e:
                results.append((ctx, ("pruned", str(e))))
            except OutOfReach as e:
                results.append((ctx, ("oor", str(e))))
        finally:
            set_cur(None)
        work.extend(ctx.pending)
    stats["paths"] = stats.get("paths", 0) + n
    return results


# ============================================================================ obligations
OB_TIMEOUT_MS = int(os.environ.get("PYVC_OB_TIMEOUT_MS", "20000"))


def _oblige(self, name, value, kind="post", info=None):
    """Record and discharge one proof obligation: pc ==> value.  Afterwards `value` is assumed
    (assert-then-assume), so one failure does not cascade."""
    from .sym import to_z3_bool
    term = to_z3_bool(value)
    t0 = time.time()
    simp = z3.simplify(term)
    rec = {"name": name, "kind": kind, "path": self.signature(), "verdict": None, "time_s": 0.0,
           "solver": "z3", "model": None, "smt": None, "goal": None}
    if info:
        rec["info"] = info
    gtxt = str(simp)
    rec["goal"] = gtxt if len(gtxt) < 600 else gtxt[:600] + "..."
    rec["trivial"] = bool(z3.is_true(simp))
    if z3.is_true(simp):
        rec["verdict"] = "PROVED"
    elif self.dry:
        rec["verdict"] = "SKIPPED"
    else:
        s = self.solver
        s.push()
        s.add(z3.Not(term))
        s.set("timeout", OB_TIMEOUT_MS)
        r = s.check()
        if r == z3.unknown:
            # second attempt: fresh solver, different seed
            s2 = z3.Solver()
            s2.set("timeout", OB_TIMEOUT_MS * 2)
            s2.set("random_seed", 7)
            s2.add(*self.pc)
            s2.add(z3.Not(term))
            r = s2.check()
            if r == z3.sat:
                rec["model"] = self.describe_model(s2.model())
            rec["solver"] = "z3(retry)"
        elif r == z3.sat:
            rec["model"] = self.describe_model(s.model())
        if self.keep_smt:
            rec["smt"] = s.to_smt2()
        s.pop()
        s.set("timeout", self.FEAS_TIMEOUT_MS)
        rec["verdict"] = "PROVED" if r == z3.unsat else "REFUTED" if r == z3.sat else "UNDECIDED"
    rec["time_s"] = round(time.time() - t0, 4)
    self.obligations.append(rec)
    if kind == "canary":
        pass
    elif rec["verdict"] == "PROVED" and not rec["trivial"]:
        self.pc.append(term)
        self.solver.add(term)
    elif rec["verdict"] != "PROVED":
        # keep exploring under the assumption that the clause holds
        self.pc.append(term)
        self.solver.add(term)
        if self.solver.check() == z3.unsat:
            raise PathEnd("path ends after failed obligation")
    return rec


def _describe_model(self, model):
    out = {}
    for label, ty, term in self.inputs:
        try:
            out[label] = ty.concretize(model, term)
        except Exception as e:          # decoding must never mask the verdict
            out[label] = f"<undecodable: {type(e).__name__}: {e}>"
    return out


Ctx.oblige = _oblige
Ctx.describe_model = _describe_model
Ctx.dry = False
Ctx.keep_smt = False
Ctx.inputs = ()

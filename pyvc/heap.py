"""Heap model: objects are integer references, one z3 array per (class, field).

Ref sort = Int, null = 0; allocated references are 1..alloc.  A freshly allocated object gets
alloc+1, so it is provably distinct from every reference read from the pre-state (each such
read carries the assumption 0 <= r <= alloc at the time of the read).
"""
from __future__ import annotations

import types as _pytypes

import z3

from . import ctx as _ctx
from .ctx import OutOfReach, PathEnd
from .sym import MARK, SymBool, SymInt, mk_bool, mk_num, to_z3_bool
from . import types as T
from .types import Ty, _dt_cache, _mangle


def _c():
    return _ctx.cur()


# ============================================================================ registry
class ClassInfo:
    def __init__(self, pyclass, fields=None, ghost=None, inv=None, guarantee=None,
                 stubs=None, file=None):
        self.pyclass = pyclass
        self.name = pyclass.__name__
        self.fields = dict(fields or {})      # name -> Ty
        self.ghost = dict(ghost or {})        # name -> Ty
        self.inv = list(inv or [])            # [(name, fn(self))]
        self.guarantee = list(guarantee or [])  # [(name, fn(old_self, self))]
        self.const = set()                    # fields no process writes after construction
        self.file = file


class Registry:
    def __init__(self):
        self.classes = {}      # pyclass -> ClassInfo
        self.by_name = {}

    def add(self, info):
        self.classes[info.pyclass] = info
        self.by_name[info.name] = info
        return info

    def info(self, pyclass):
        return self.classes.get(pyclass)

    def field(self, pyclass, name):
        """-> (owner class name, Ty) searching the MRO; None if undeclared."""
        for k in pyclass.__mro__:
            ci = self.classes.get(k)
            if ci is not None:
                if name in ci.fields:
                    return ci.name, ci.fields[name]
                if name in ci.ghost:
                    return ci.name, ci.ghost[name]
        return None

    def is_heap_class(self, pyclass):
        return any(k in self.classes for k in pyclass.__mro__)


REG = Registry()


# ============================================================================ Ref type
CLASS_OF = z3.Function("class_of", z3.IntSort(), z3.IntSort())     # dynamic class id of a reference
_CLASS_IDS = {}


def class_id(pycls):
    k = f"{pycls.__module__}.{pycls.__qualname__}"
    if k not in _CLASS_IDS:
        _CLASS_IDS[k] = len(_CLASS_IDS) + 1
    return _CLASS_IDS[k]


class Ref(Ty):
    """Reference to an object of heap class `cls` (a Python class or a lazy name).
    variants: the possible dynamic classes (subclasses) - reading such a reference forks on the
    class, so isinstance() tests and method dispatch in the code see the concrete class."""

    def __init__(self, cls, nullable=False, variants=None):
        self._cls = cls
        self.nullable = nullable
        self.variants = list(variants) if variants else None
        self.name = f"Ref({cls if isinstance(cls, str) else cls.__name__}{'?' if nullable else ''})"

    @property
    def cls(self):
        if isinstance(self._cls, str):
            ci = REG.by_name.get(self._cls)
            if ci is None:
                raise OutOfReach(f"class {self._cls} not registered")
            self._cls = ci.pyclass
        return self._cls

    def sort(self):
        return z3.IntSort()

    def wrap(self, term, loc=None):
        term = z3.simplify(term)
        c = _c()
        if self.nullable:
            if c.branch(term == 0):
                return None
        h = c.heap
        if not (z3.is_int_value(term)):
            c.assume(z3.And(term >= (0 if self.nullable else 1), term <= h.alloc))
        if self.variants:
            ids = [class_id(v) for v in self.variants]
            c.assume(z3.Or(*[CLASS_OF(term) == i for i in ids]))
            k = c.choose([CLASS_OF(term) == i for i in ids], site="class:" + self.name)
            return ObjProxy(term, self.variants[k])
        # typing: the dynamic class is the declared class or one of its registered subclasses
        # (so references of unrelated classes are provably distinct objects)
        key = ("cls", term.get_id(), self.cls)
        if key not in c._pool_seen:
            c._pool_seen.add(key)
            ids = sorted({class_id(k2) for k2 in REG.classes if issubclass(k2, self.cls)} | {class_id(self.cls)})
            c.assume(z3.Or(*[CLASS_OF(term) == i for i in ids]))
        return ObjProxy(term, self.cls)

    def unwrap(self, v):
        if v is None:
            if not self.nullable:
                raise OutOfReach(f"None stored in non-nullable {self.name}")
            return z3.IntVal(0)
        if isinstance(v, ObjProxy):
            return v._ref
        raise OutOfReach(f"concrete {type(v).__name__} stored where {self.name} is declared")

    def assume_wf(self, term):
        h = _c().heap
        _c().assume(z3.And(term >= (0 if self.nullable else 1), term <= h.alloc))

    def concretize(self, model, term):
        v = model.eval(term, model_completion=True).as_long()
        if v == 0:
            return None
        cname = self.cls.__name__
        if self.variants:
            cid = model.eval(CLASS_OF(z3.IntVal(v)), model_completion=True).as_long()
            for vv in self.variants:
                if class_id(vv) == cid:
                    cname = vv.__name__
        return {"__ref__": v, "cls": cname}


def OptRef(cls, variants=None):
    return Ref(cls, nullable=True, variants=variants)


# ============================================================================ locations
class Box:
    """A free-standing mutable cell holding a z3 term."""
    __slots__ = ("term",)

    def __init__(self, term):
        self.term = term

    def get(self):
        return self.term

    def set(self, t):
        self.term = t


class FieldLoc:
    __slots__ = ("heap", "key", "ref", "frozen")

    def __init__(self, heap, key, ref, frozen=None):
        self.heap, self.key, self.ref, self.frozen = heap, key, ref, frozen

    def get(self):
        st = self.frozen if self.frozen is not None else self.heap.st
        return z3.Select(st.arrays[self.key], self.ref)

    def set(self, t):
        if self.frozen is not None:
            raise OutOfReach("write through an old() view")
        arrs = self.heap.st.arrays
        arrs[self.key] = z3.Store(arrs[self.key], self.ref, t)


class MapValLoc:
    """Location of d[k] inside a map stored at `parent`."""
    __slots__ = ("parent", "mty", "k")

    def __init__(self, parent, mty, k):
        self.parent, self.mty, self.k = parent, mty, k

    def get(self):
        return z3.Select(self.mty.dt.val(self.parent.get()), self.k)

    def set(self, t):
        m = self.parent.get()
        dt = self.mty.dt
        self.parent.set(self.mty.rebuild(m, val=z3.Store(dt.val(m), self.k, t)))


class SeqElemLoc:
    __slots__ = ("parent", "i")

    def __init__(self, parent, i):
        self.parent, self.i = parent, i

    def get(self):
        return self.parent.get()[self.i]

    def set(self, t):
        s = self.parent.get()
        n = z3.Length(s)
        self.parent.set(z3.Concat(z3.Extract(s, 0, self.i), z3.Unit(t),
                                  z3.Extract(s, self.i + 1, n - self.i - 1)))


# ============================================================================ Seq
class Seq(Ty):
    def __init__(self, elem):
        self.elem = elem
        self.name = f"Seq({elem.name})"

    def sort(self):
        return z3.SeqSort(self.elem.sort())

    def wrap(self, term, loc=None):
        return SymList(loc if loc is not None else Box(term), self.elem)

    def unwrap(self, v):
        if isinstance(v, SymList):
            return v._loc.get()
        if isinstance(v, (list, tuple)) or type(v).__name__ == "deque":
            return seq_of([self.elem.unwrap(x) for x in v], self.elem.sort())
        raise OutOfReach(f"{type(v).__name__} stored where {self.name} is declared")

    def concretize(self, model, term):
        v = model.eval(term, model_completion=True)
        n = model.eval(z3.Length(v), model_completion=True).as_long()
        return [self.elem.concretize(model, v[i]) for i in range(min(n, 64))]


def seq_of(terms, sort):
    if not terms:
        return z3.Empty(z3.SeqSort(sort))
    units = [z3.Unit(t) for t in terms]
    return units[0] if len(units) == 1 else z3.Concat(*units)


def _idx_term(i):
    if isinstance(i, SymInt):
        return i.t
    if isinstance(i, bool):
        return z3.IntVal(int(i))
    if isinstance(i, int):
        return z3.IntVal(i)
    raise OutOfReach(f"sequence index of type {type(i).__name__}")


class SymList:
    """list / deque proxy over a z3 sequence stored at a location."""
    ITER_CAP = 6

    def __init__(self, loc, elem):
        self._loc = loc
        self._elem = elem

    # -- helpers
    @property
    def term(self):
        return self._loc.get()

    def _len(self):
        return z3.Length(self.term)

    def __sym_len__(self):
        return mk_num(self._len())

    def __len__(self):
        t = z3.simplify(self._len())
        if z3.is_int_value(t):
            return t.as_long()
        raise OutOfReach("len() of a symbolic sequence through the C API (builtin not shimmed)")

    def __bool__(self):
        return _c().branch(self._len() != 0)

    def __sym_bool__(self):
        return self._len() != 0

    def _norm_index(self, i, for_insert=False):
        n = self._len()
        if isinstance(i, int) and not isinstance(i, bool) and i < 0:
            it = n + i
        else:
            it = _idx_term(i)
            if isinstance(i, SymInt):
                it = z3.If(it < 0, n + it, it)
        return z3.simplify(it)

    def __getitem__(self, i):
        if isinstance(i, slice):
            return self._slice(i)
        it = self._norm_index(i)
        if not _c().branch(z3.And(it >= 0, it < self._len()), site="idx"):
            raise IndexError("list index out of range (symbolic)")
        return self._elem.wrap(self.term[it], SeqElemLoc(self._loc, it))

    def __setitem__(self, i, v):
        it = self._norm_index(i)
        if not _c().branch(z3.And(it >= 0, it < self._len()), site="idx"):
            raise IndexError("list assignment index out of range (symbolic)")
        SeqElemLoc(self._loc, it).set(self._elem.unwrap(v))

    def _slice(self, sl):
        if sl.step not in (None, 1):
            raise OutOfReach("slice step")
        n = self._len()

        def clamp(x, default):
            if x is None:
                return default
            t = _idx_term(x)
            t = z3.If(t < 0, z3.If(n + t < 0, z3.IntVal(0), n + t), z3.If(t > n, n, t))
            return t
        lo = clamp(sl.start, z3.IntVal(0))
        hi = clamp(sl.stop, n)
        ln = z3.If(hi > lo, hi - lo, z3.IntVal(0))
        return SymList(Box(z3.simplify(z3.Extract(self.term, lo, ln))), self._elem)

    def append(self, v):
        self._loc.set(z3.Concat(self.term, z3.Unit(self._elem.unwrap(v))))

    def appendleft(self, v):
        self._loc.set(z3.Concat(z3.Unit(self._elem.unwrap(v)), self.term))

    def extend(self, vs):
        t = Seq(self._elem).unwrap(vs if isinstance(vs, (SymList, list, tuple)) else list(vs))
        self._loc.set(z3.Concat(self.term, t))

    def __iadd__(self, vs):
        self.extend(vs)
        return self

    def __add__(self, vs):
        t = Seq(self._elem).unwrap(vs)
        return SymList(Box(z3.Concat(self.term, t)), self._elem)

    def __radd__(self, vs):         # concrete list + symbolic list
        t = Seq(self._elem).unwrap(vs)
        return SymList(Box(z3.Concat(t, self.term)), self._elem)

    def insert(self, i, v):
        s = self.term
        n = self._len()
        it = _idx_term(i)
        it = z3.If(it < 0, z3.If(n + it < 0, z3.IntVal(0), n + it), z3.If(it > n, n, it))
        self._loc.set(z3.Concat(z3.Extract(s, 0, it), z3.Unit(self._elem.unwrap(v)),
                                z3.Extract(s, it, n - it)))

    def pop(self, i=-1):
        s = self.term
        n = self._len()
        if not _c().branch(n > 0, site="pop"):
            raise IndexError("pop from empty list (symbolic)")
        it = self._norm_index(i)
        if not (isinstance(i, int) and i in (-1, 0)):
            if not _c().branch(z3.And(it >= 0, it < n), site="idx"):
                raise IndexError("pop index out of range (symbolic)")
        v = self._elem.wrap(s[it])
        self._loc.set(z3.simplify(z3.Concat(z3.Extract(s, 0, it), z3.Extract(s, it + 1, n - it - 1))))
        return v

    def popleft(self):
        return self.pop(0)

    def __delitem__(self, i):
        # `del seq[i]` (additive): the element at index i is taken out, the rest keeps its order
        if isinstance(i, slice):
            # `del seq[a:b]` (step 1): the elements a..b-1 are taken out, bounds clamped as Python does
            if i.step not in (None, 1):
                raise OutOfReach("del of a stepped slice of a symbolic sequence")
            s, n = self.term, self._len()

            def clamp(x, default):
                if x is None:
                    return default
                t = _idx_term(x)
                return z3.If(t < 0, z3.If(n + t < 0, z3.IntVal(0), n + t), z3.If(t > n, n, t))
            lo = clamp(i.start, z3.IntVal(0))
            hi = clamp(i.stop, n)
            hi = z3.If(hi > lo, hi, lo)
            self._loc.set(z3.simplify(z3.Concat(z3.Extract(s, 0, lo), z3.Extract(s, hi, n - hi))))
            return
        s = self.term
        n = self._len()
        it = self._norm_index(i)
        if not _c().branch(z3.And(it >= 0, it < n), site="idx"):
            raise IndexError("list assignment index out of range (symbolic)")
        self._loc.set(z3.simplify(z3.Concat(z3.Extract(s, 0, it), z3.Extract(s, it + 1, n - it - 1))))

    def clear(self):
        self._loc.set(z3.Empty(z3.SeqSort(self._elem.sort())))

    def copy(self):
        return SymList(Box(self.term), self._elem)

    def __sym_contains__(self, v):
        return z3.Contains(self.term, z3.Unit(self._elem.unwrap(v)))

    def __contains__(self, v):
        try:
            u = self._elem.unwrap(v)
        except OutOfReach:
            return False
        return _c().branch(z3.Contains(self.term, z3.Unit(u)))

    def index(self, v):
        u = z3.Unit(self._elem.unwrap(v))
        idx = z3.IndexOf(self.term, u, 0)
        if not _c().branch(idx >= 0, site="index"):
            raise ValueError("x not in list (symbolic)")
        return mk_num(idx)

    def remove(self, v):
        s = self.term
        u = z3.Unit(self._elem.unwrap(v))
        idx = z3.IndexOf(s, u, 0)
        if not _c().branch(idx >= 0, site="remove"):
            raise ValueError("list.remove(x): x not in list (symbolic)")
        n = z3.Length(s)
        self._loc.set(z3.Concat(z3.Extract(s, 0, idx), z3.Extract(s, idx + 1, n - idx - 1)))

    def __iter__(self):
        i = 0
        while True:
            t = z3.simplify(self._len())
            if z3.is_int_value(t):
                if i >= t.as_long():
                    return
            else:
                if i >= self.ITER_CAP:
                    raise OutOfReach("iteration over a sequence of symbolic length needs a loop invariant")
                if not _c().branch(self._len() > i, site=None):
                    return
            yield self._elem.wrap(self.term[i], SeqElemLoc(self._loc, z3.IntVal(i)))
            i += 1

    def __reversed__(self):
        t = z3.simplify(self._len())
        if not z3.is_int_value(t):
            raise OutOfReach("reversed() over a sequence of symbolic length needs a loop invariant")
        for i in range(t.as_long() - 1, -1, -1):
            yield self._elem.wrap(self.term[i])

    def __eq__(self, o):
        if isinstance(o, (SymList, list, tuple)):
            return mk_bool(self.term == Seq(self._elem).unwrap(o))
        return False

    def __ne__(self, o):
        r = self.__eq__(o)
        return (not r) if isinstance(r, bool) else ~r

    __hash__ = None

    def __repr__(self):
        return f"SymList({self.term})"

    def __format__(self, s):
        return MARK


# ============================================================================ Map / Set
class Map(Ty):
    """dict proxy: dom/val arrays + size; `ordered` keeps the insertion order as a Seq of keys.
    `default`: a zero-arg callable giving the default value (defaultdict)."""

    def __init__(self, key, val, ordered=False, default=None):
        self.key, self.val, self.ordered, self.default = key, val, ordered, default
        self.name = f"Map({key.name},{val.name}{',ordered' if ordered else ''})"
        k = ("map", str(key.sort()), str(val.sort()), ordered)
        if k not in _dt_cache:
            d = z3.Datatype(f"Map_{_mangle(key.sort())}_{_mangle(val.sort())}{'_o' if ordered else ''}")
            fs = [("dom", z3.ArraySort(key.sort(), z3.BoolSort())),
                  ("val", z3.ArraySort(key.sort(), val.sort())),
                  ("size", z3.IntSort())]
            if ordered:
                fs.append(("keys", z3.SeqSort(key.sort())))
            d.declare("mk", *fs)
            _dt_cache[k] = d.create()
        self.dt = _dt_cache[k]

    def sort(self):
        return self.dt

    def rebuild(self, m, dom=None, val=None, size=None, keys=None):
        dt = self.dt
        args = [dom if dom is not None else dt.dom(m), val if val is not None else dt.val(m),
                size if size is not None else dt.size(m)]
        if self.ordered:
            args.append(keys if keys is not None else dt.keys(m))
        return z3.simplify(dt.mk(*args))

    def empty(self):
        ks, vs = self.key.sort(), self.val.sort()
        args = [z3.K(ks, z3.BoolVal(False)), z3.K(ks, _default_of(vs)), z3.IntVal(0)]
        if self.ordered:
            args.append(z3.Empty(z3.SeqSort(ks)))
        return self.dt.mk(*args)

    def assume_wf(self, term):
        dt = self.dt
        c = _c()
        c.assume(dt.size(term) >= 0)
        c.assume((dt.size(term) == 0) == (dt.dom(term) == z3.K(self.key.sort(), z3.BoolVal(False))))
        if self.ordered:
            c.assume(z3.Length(dt.keys(term)) == dt.size(term))

    def wrap(self, term, loc=None):
        return SymDict(loc if loc is not None else Box(term), self)

    def unwrap(self, v):
        if isinstance(v, SymDict):
            return v._loc.get()
        if isinstance(v, dict):
            m = self.empty()
            d = SymDict(Box(m), self)
            for k, x in v.items():
                d[k] = x
            return d._loc.get()
        raise OutOfReach(f"{type(v).__name__} stored where {self.name} is declared")

    def concretize(self, model, term):
        v = model.eval(term, model_completion=True)
        dom = model.eval(self.dt.dom(v), model_completion=True)
        ent = array_entries(dom)
        if ent is not None and z3.is_false(ent[0]):
            keys = [k for k, b in ent[1] if z3.is_true(b)]
            items = []
            for k in keys[:32]:
                items.append([self.key.concretize(model, k),
                              self.val.concretize(model, z3.Select(self.dt.val(v), k))])
            return {"__dict__": items}
        return {"__map__": str(dom)[:400],
                "val": str(model.eval(self.dt.val(v), model_completion=True))[:400],
                "size": model.eval(self.dt.size(v), model_completion=True).as_long()}


def array_entries(a):
    """Decode a model value `Store(...Store(K(d), k1, v1)..., kn, vn)` -> (d, [(k, v)]) (last
    store wins); None if the value has another shape (lambda / as-array)."""
    stores = []
    while z3.is_store(a):
        stores.append((a.arg(1), a.arg(2)))
        a = a.arg(0)
    if not z3.is_const_array(a):
        return None
    seen = set()
    out = []
    for k, v in stores:
        key = k.get_id()
        if key in seen:
            continue
        seen.add(key)
        out.append((k, v))
    return a.arg(0), out


def _default_of(sort):
    k = sort.kind()
    if k == z3.Z3_INT_SORT:
        return z3.IntVal(0)
    if k == z3.Z3_REAL_SORT:
        return z3.RealVal(0)
    if k == z3.Z3_BOOL_SORT:
        return z3.BoolVal(False)
    return z3.Const(f"dflt_{_mangle(sort)}", sort)


class SymDict:
    def __init__(self, loc, ty: Map):
        self._loc, self._ty = loc, ty

    @property
    def term(self):
        return self._loc.get()

    def _k(self, k):
        kt = self._ty.key.unwrap(k)
        c = _c()
        if c.spec_mode == 0 and not z3.is_var(kt):
            c.note_term(kt)         # keys used by the code are instantiation terms for facts
        return kt

    def _has(self, kt):
        return z3.Select(self._ty.dt.dom(self.term), kt)

    def __sym_contains__(self, k):
        try:
            return self._has(self._k(k))
        except OutOfReach:
            return z3.BoolVal(False)

    def __contains__(self, k):
        return _c().branch(self.__sym_contains__(k))

    def __sym_len__(self):
        self._ty.assume_wf(self.term)
        return mk_num(self._ty.dt.size(self.term))

    def __len__(self):
        t = z3.simplify(self._ty.dt.size(self.term))
        if z3.is_int_value(t):
            return t.as_long()
        raise OutOfReach("len() of symbolic dict through the C API")

    def __bool__(self):
        self._ty.assume_wf(self.term)
        return _c().branch(self._ty.dt.size(self.term) != 0)

    def _valloc(self, kt):
        return MapValLoc(self._loc, self._ty, kt)

    def __getitem__(self, k):
        kt = self._k(k)
        if not _c().branch(self._has(kt), site="key"):
            if self._ty.default is not None:
                self[k] = self._ty.default()
            else:
                raise KeyError("symbolic key not in dict")
        return self._ty.val.wrap(z3.Select(self._ty.dt.val(self.term), kt), self._valloc(kt))

    def get(self, k, default=None):
        kt = self._k(k)
        vty = self._ty.val
        if default is not None and vty in (T.Int, T.Real, T.Bool, T.Str):
            # scalar value and default: one merged term instead of a fork
            try:
                dt_ = vty.unwrap(default)
            except OutOfReach:
                dt_ = None
            if dt_ is not None:
                return vty.wrap(z3.If(self._has(kt), z3.Select(self._ty.dt.val(self.term), kt), dt_))
        if not _c().branch(self._has(kt), site="key"):
            return default
        return self._ty.val.wrap(z3.Select(self._ty.dt.val(self.term), kt), self._valloc(kt))

    def __setitem__(self, k, v):
        kt = self._k(k)
        vt = self._ty.val.unwrap(v)
        m = self.term
        dt = self._ty.dt
        had = z3.Select(dt.dom(m), kt)
        kw = dict(dom=z3.Store(dt.dom(m), kt, z3.BoolVal(True)), val=z3.Store(dt.val(m), kt, vt),
                  size=z3.If(had, dt.size(m), dt.size(m) + 1))
        if self._ty.ordered:
            kw["keys"] = z3.If(had, dt.keys(m), z3.Concat(dt.keys(m), z3.Unit(kt)))
        self._loc.set(self._ty.rebuild(m, **kw))

    def setdefault(self, k, default=None):
        if k not in self:
            self[k] = default
        return self[k]

    def _remove(self, kt):
        m = self.term
        dt = self._ty.dt
        kw = dict(dom=z3.Store(dt.dom(m), kt, z3.BoolVal(False)), size=dt.size(m) - 1)
        if self._ty.ordered:
            ks = dt.keys(m)
            i = z3.IndexOf(ks, z3.Unit(kt), 0)
            kw["keys"] = z3.Concat(z3.Extract(ks, 0, i), z3.Extract(ks, i + 1, z3.Length(ks) - i - 1))
        self._loc.set(self._ty.rebuild(m, **kw))

    def __delitem__(self, k):
        kt = self._k(k)
        if not _c().branch(self._has(kt), site="key"):
            raise KeyError("symbolic key not in dict")
        self._remove(kt)

    _MISSING = object()

    def pop(self, k, default=_MISSING):
        kt = self._k(k)
        if not _c().branch(self._has(kt), site="key"):
            if default is SymDict._MISSING:
                raise KeyError("symbolic key not in dict")
            return default
        v = self._ty.val.wrap(z3.Select(self._ty.dt.val(self.term), kt))
        self._remove(kt)
        return v

    def clear(self):
        self._loc.set(self._ty.empty())

    def copy(self):
        return SymDict(Box(self.term), self._ty)

    def _ordered_keys(self):
        if not self._ty.ordered:
            raise OutOfReach("iteration over an unordered symbolic dict needs a loop contract")
        self._ty.assume_wf(self.term)
        return SymList(Box(self._ty.dt.keys(self.term)), self._ty.key)

    def __iter__(self):
        return iter(self._ordered_keys())

    def keys(self):
        if not self._ty.ordered:
            return self.keyset()        # unordered map (was OUT-OF-REACH): the key set as a snapshot
        return self._ordered_keys()

    def values(self):
        return _MapIter(self, None, "v")

    def items(self):
        return _MapIter(self, None, "kv")

    def move_to_end(self, k, last=True):
        if not self._ty.ordered:
            raise OutOfReach("move_to_end on unordered map")
        kt = self._k(k)
        if not _c().branch(self._has(kt), site="key"):
            raise KeyError("symbolic key not in dict")
        m = self.term
        dt = self._ty.dt
        ks = dt.keys(m)
        i = z3.IndexOf(ks, z3.Unit(kt), 0)
        rest = z3.Concat(z3.Extract(ks, 0, i), z3.Extract(ks, i + 1, z3.Length(ks) - i - 1))
        nk = z3.Concat(rest, z3.Unit(kt)) if last else z3.Concat(z3.Unit(kt), rest)
        self._loc.set(self._ty.rebuild(m, keys=nk))

    def popitem(self, last=True):
        ks = self._ordered_keys()
        n = z3.Length(ks.term)
        if not _c().branch(n > 0, site="pop"):
            raise KeyError("popitem(): dictionary is empty")
        kt = ks.term[n - 1] if last else ks.term[0]
        k = self._ty.key.wrap(kt)
        v = self._ty.val.wrap(z3.Select(self._ty.dt.val(self.term), kt))
        self._remove(kt)
        return k, v

    def update(self, other):
        if isinstance(other, dict):
            for k, v in other.items():
                self[k] = v
            return
        raise OutOfReach("dict.update with symbolic argument")

    __hash__ = None

    def keyset(self):
        """The set of keys as a free-standing SymSet."""
        self._ty.assume_wf(self.term)
        st = Set(self._ty.key)
        return SymSet(Box(st.dt.mk(self._ty.dt.dom(self.term), self._ty.dt.size(self.term))), st)

    def __eq__(self, o):
        if isinstance(o, dict):
            o = SymDict(Box(self._ty.unwrap(o)), self._ty)
        if not isinstance(o, SymDict):
            return False
        if str(o._ty.sort()) != str(self._ty.sort()):
            raise OutOfReach("== on symbolic dicts of different types")
        dt = self._ty.dt
        a, b = self.term, o.term
        k = _c().fresh("eqk", self._ty.key.sort())
        return mk_bool(z3.And(dt.dom(a) == dt.dom(b),
                              z3.ForAll([k], z3.Implies(z3.Select(dt.dom(a), k),
                                                        z3.Select(dt.val(a), k) == z3.Select(dt.val(b), k)))))

    def __ne__(self, o):
        r = self.__eq__(o)
        return (not r) if isinstance(r, bool) else ~r

    def __repr__(self):
        return f"SymDict({self.term})"

    def __format__(self, s):
        return MARK


class _MapIter:
    def __init__(self, d, ks, mode):
        self.d, self._ks, self.mode = d, ks, mode

    @property
    def ks(self):
        if self._ks is None:
            self._ks = self.d._ordered_keys()
        return self._ks

    def __iter__(self):
        for k in self.ks:
            v = self.d[k]
            yield v if self.mode == "v" else (k, v)


class Set(Ty):
    def __init__(self, elem):
        self.elem = elem
        self.name = f"Set({elem.name})"
        k = ("set", str(elem.sort()))
        if k not in _dt_cache:
            d = z3.Datatype(f"Set_{_mangle(elem.sort())}")
            d.declare("mk", ("dom", z3.ArraySort(elem.sort(), z3.BoolSort())), ("size", z3.IntSort()))
            _dt_cache[k] = d.create()
        self.dt = _dt_cache[k]

    def sort(self):
        return self.dt

    def empty(self):
        return self.dt.mk(z3.K(self.elem.sort(), z3.BoolVal(False)), z3.IntVal(0))

    def assume_wf(self, term):
        c = _c()
        c.assume(self.dt.size(term) >= 0)
        c.assume((self.dt.size(term) == 0) == (self.dt.dom(term) == z3.K(self.elem.sort(), z3.BoolVal(False))))

    def wrap(self, term, loc=None):
        return SymSet(loc if loc is not None else Box(term), self)

    def unwrap(self, v):
        if isinstance(v, SymSet):
            return v._loc.get()
        if isinstance(v, (set, frozenset, list, tuple)):
            s = SymSet(Box(self.empty()), self)
            for x in v:
                s.add(x)
            return s._loc.get()
        raise OutOfReach(f"{type(v).__name__} stored where {self.name} is declared")

    def concretize(self, model, term):
        v = model.eval(term, model_completion=True)
        dom = model.eval(self.dt.dom(v), model_completion=True)
        ent = array_entries(dom)
        if ent is not None and z3.is_false(ent[0]):
            return {"__setv__": [self.elem.concretize(model, k) for k, b in ent[1][:32] if z3.is_true(b)]}
        return {"__set__": str(dom)[:400],
                "size": model.eval(self.dt.size(v), model_completion=True).as_long()}


class SymSet:
    def __init__(self, loc, ty: Set):
        self._loc, self._ty = loc, ty

    @property
    def term(self):
        return self._loc.get()

    def _has(self, et):
        return z3.Select(self._ty.dt.dom(self.term), et)

    def __sym_contains__(self, v):
        try:
            return self._has(self._ty.elem.unwrap(v))
        except OutOfReach:
            return z3.BoolVal(False)

    def __contains__(self, v):
        return _c().branch(self.__sym_contains__(v))

    def __sym_len__(self):
        self._ty.assume_wf(self.term)
        return mk_num(self._ty.dt.size(self.term))

    def __len__(self):
        t = z3.simplify(self._ty.dt.size(self.term))
        if z3.is_int_value(t):
            return t.as_long()
        raise OutOfReach("len() of symbolic set through the C API")

    def __bool__(self):
        self._ty.assume_wf(self.term)
        return _c().branch(self._ty.dt.size(self.term) != 0)

    def add(self, v):
        et = self._ty.elem.unwrap(v)
        m = self.term
        dt = self._ty.dt
        had = z3.Select(dt.dom(m), et)
        self._loc.set(z3.simplify(dt.mk(z3.Store(dt.dom(m), et, z3.BoolVal(True)),
                                        z3.If(had, dt.size(m), dt.size(m) + 1))))

    def discard(self, v):
        et = self._ty.elem.unwrap(v)
        m = self.term
        dt = self._ty.dt
        had = z3.Select(dt.dom(m), et)
        self._loc.set(z3.simplify(dt.mk(z3.Store(dt.dom(m), et, z3.BoolVal(False)),
                                        z3.If(had, dt.size(m) - 1, dt.size(m)))))

    def remove(self, v):
        if v not in self:
            raise KeyError("symbolic element not in set")
        self.discard(v)

    def clear(self):
        self._loc.set(self._ty.empty())

    def copy(self):
        return SymSet(Box(self.term), self._ty)

    def __iter__(self):
        raise OutOfReach("iteration over a symbolic set needs a loop contract")

    # -- algebra (results are free-standing sets; sizes are bounded, not computed)
    def _other_dom(self, o):
        if isinstance(o, SymSet):
            return self._ty.dt.dom(o.term), self._ty.dt.size(o.term)
        if isinstance(o, (set, frozenset)):
            t = self._ty.unwrap(o)
            return self._ty.dt.dom(t), self._ty.dt.size(t)
        raise OutOfReach(f"set operation with {type(o).__name__}")

    def _mk(self, dom, lo, hi):
        c = _c()
        n = c.fresh("setsize", z3.IntSort())
        c.assume(z3.And(n >= lo, n <= hi, n >= 0))
        t = self._ty.dt.mk(dom, n)
        self._ty.assume_wf(t)
        return SymSet(Box(t), self._ty)

    def __or__(self, o):
        d2, n2 = self._other_dom(o)
        d1, n1 = self._ty.dt.dom(self.term), self._ty.dt.size(self.term)
        self._ty.assume_wf(self.term)
        return self._mk(z3.SetUnion(d1, d2), z3.If(n1 > n2, n1, n2), n1 + n2)

    __ror__ = __or__
    union = __or__

    def __and__(self, o):
        d2, n2 = self._other_dom(o)
        d1, n1 = self._ty.dt.dom(self.term), self._ty.dt.size(self.term)
        self._ty.assume_wf(self.term)
        return self._mk(z3.SetIntersect(d1, d2), z3.IntVal(0), z3.If(n1 < n2, n1, n2))

    intersection = __and__

    def __sub__(self, o):
        d2, n2 = self._other_dom(o)
        d1, n1 = self._ty.dt.dom(self.term), self._ty.dt.size(self.term)
        self._ty.assume_wf(self.term)
        return self._mk(z3.SetDifference(d1, d2), z3.If(n1 - n2 > 0, n1 - n2, z3.IntVal(0)), n1)

    difference = __sub__

    def __le__(self, o):
        d2, _ = self._other_dom(o)
        return mk_bool(z3.IsSubset(self._ty.dt.dom(self.term), d2))

    issubset = __le__

    def __eq__(self, o):
        if isinstance(o, (SymSet, set, frozenset)):
            d2, _ = self._other_dom(o)
            return mk_bool(self._ty.dt.dom(self.term) == d2)
        return False

    def __ne__(self, o):
        r = self.__eq__(o)
        return (not r) if isinstance(r, bool) else ~r

    def update(self, o):
        r = self | o
        self._loc.set(r.term)

    def __ior__(self, o):
        self._loc.set((self | o).term)
        return self

    def __isub__(self, o):
        self._loc.set((self - o).term)
        return self

    def __iand__(self, o):
        self._loc.set((self & o).term)
        return self

    difference_update = __isub__
    intersection_update = __iand__

    __hash__ = None

    def __repr__(self):
        return f"SymSet({self.term})"

    def __format__(self, s):
        return MARK


# ============================================================================ the heap
class HeapState:
    """arrays: (owner, field) -> z3 array term (created lazily, named by the epoch of the key)."""
    __slots__ = ("arrays", "key_epoch", "base_epoch")

    def __init__(self, arrays=None, key_epoch=None, base_epoch=0):
        self.arrays = arrays if arrays is not None else {}
        self.key_epoch = key_epoch if key_epoch is not None else {}
        self.base_epoch = base_epoch

    def copy(self):
        return HeapState(dict(self.arrays), dict(self.key_epoch), self.base_epoch)

    def get(self, key, ty):
        a = self.arrays.get(key)
        if a is None:
            e = self.key_epoch.get(key, self.base_epoch)
            a = z3.Const(f"H{e}_{key[0]}.{key[1]}", z3.ArraySort(z3.IntSort(), ty.sort()))
            self.arrays[key] = a
        return a


class Heap:
    def __init__(self, ctx):
        self.ctx = ctx
        ctx.heap = self
        self.st = HeapState()
        self.tys = {}
        self.alloc = ctx.fresh("alloc", z3.IntSort())
        ctx.assume(self.alloc >= 0)
        self.nfresh = 0
        self.epochs = 0

    @property
    def arrays(self):
        return self.st.arrays

    def array(self, key, ty, state=None):
        self.tys[key] = ty
        return (state if state is not None else self.st).get(key, ty)

    def snapshot(self):
        return self.st.copy()

    def new_ref(self):
        self.nfresh += 1
        self.alloc = self.alloc + 1
        return z3.simplify(self.alloc)

    def havoc(self, keys=None):
        """Replace the arrays of the given (owner, field) keys (default: all) by fresh ones."""
        self.epochs += 1
        if keys is None:
            self.st.arrays.clear()
            self.st.key_epoch.clear()
            self.st.base_epoch = self.epochs
        else:
            for key in keys:
                self.st.arrays.pop(key, None)
                self.st.key_epoch[key] = self.epochs
        a2 = self.ctx.fresh("alloc", z3.IntSort())      # others may have allocated meanwhile
        self.ctx.assume(a2 >= self.alloc)
        self.alloc = a2


# ============================================================================ object proxies
_PROXY_SLOTS = ("_ref", "_cls", "_frozen")


class ObjProxy:
    """Symbolic reference to an instance of a heap class; attribute access goes to the heap
    arrays, methods/properties come from the real class and run with `self` = this proxy."""
    __slots__ = _PROXY_SLOTS

    def __init__(self, ref, cls, frozen=None):
        object.__setattr__(self, "_ref", ref)
        object.__setattr__(self, "_cls", cls)
        object.__setattr__(self, "_frozen", frozen)

    @property
    def __class__(self):
        return object.__getattribute__(self, "_cls")

    def __getattr__(self, name):
        cls = object.__getattribute__(self, "_cls")
        # 1. declared field (or ghost)
        fd = REG.field(cls, name)
        if fd is not None:
            owner, ty = fd
            c = _c()
            frozen = object.__getattribute__(self, "_frozen")
            key = (owner, name)
            c.heap.array(key, ty, frozen)
            loc = FieldLoc(c.heap, key, object.__getattribute__(self, "_ref"), frozen)
            return ty.wrap(loc.get(), loc)
        # 2. class attribute: method / property / constant
        for k in cls.__mro__:
            if name in k.__dict__:
                a = k.__dict__[name]
                if isinstance(a, property):
                    return a.fget(self)
                if isinstance(a, _pytypes.FunctionType):
                    return _pytypes.MethodType(a, self)
                if isinstance(a, classmethod):
                    return _pytypes.MethodType(a.__func__, cls)
                if isinstance(a, staticmethod):
                    return a.__func__
                if hasattr(a, "__get__") and not isinstance(a, (int, float, str, tuple, type(None))):
                    if type(a).__name__ in ("member_descriptor", "getset_descriptor"):
                        break       # __slots__ entry without declared type
                    return a.__get__(self, cls)
                return a
        raise OutOfReach(f"untyped field {cls.__name__}.{name} (declare it in the spec)")

    def __setattr__(self, name, value):
        cls = object.__getattribute__(self, "_cls")
        fd = REG.field(cls, name)
        if fd is None:
            for k in cls.__mro__:
                a = k.__dict__.get(name)
                if isinstance(a, property) and a.fset is not None:
                    a.fset(self, value)
                    return
            raise OutOfReach(f"write to untyped field {cls.__name__}.{name} (declare it in the spec)")
        owner, ty = fd
        c = _c()
        if object.__getattribute__(self, "_frozen") is not None:
            raise OutOfReach("write through old() view")
        key = (owner, name)
        c.heap.array(key, ty)
        FieldLoc(c.heap, key, object.__getattribute__(self, "_ref")).set(ty.unwrap(value))

    # identity-based defaults, overridable by the real class
    def _dunder(self, name):
        cls = object.__getattribute__(self, "_cls")
        for k in cls.__mro__:
            if k is object:
                break
            if name in k.__dict__:
                return k.__dict__[name]
        return None

    def __eq__(self, o):
        f = self._dunder("__eq__")
        if f is not None:
            return f(self, o)
        if isinstance(o, ObjProxy):
            return mk_bool(self._ref == o._ref)
        return False

    def __ne__(self, o):
        f = self._dunder("__ne__")
        if f is not None:
            return f(self, o)
        r = self.__eq__(o)
        return (not r) if isinstance(r, bool) else ~r

    def __hash__(self):
        raise OutOfReach("hash of a symbolic object (key of a concrete dict/set)")

    def __repr__(self):
        return f"<{object.__getattribute__(self, '_cls').__name__}@{object.__getattribute__(self, '_ref')}>"

    def __format__(self, s):
        return MARK

    def __bool__(self):
        f = self._dunder("__bool__")
        if f is not None:
            return f(self)
        f = self._dunder("__len__")
        if f is not None:
            raise OutOfReach("truthiness via __len__ of a heap object")
        return True


def _fwd(name):
    def m(self, *a):
        f = self._dunder(name)
        if f is None:
            return NotImplemented
        return f(self, *a)
    m.__name__ = name
    return m


for _n in ("__lt__", "__le__", "__gt__", "__ge__", "__add__", "__radd__", "__sub__", "__rsub__",
           "__mul__", "__rmul__", "__truediv__", "__contains__", "__getitem__", "__setitem__",
           "__iter__", "__call__", "__enter__", "__exit__"):
    setattr(ObjProxy, _n, _fwd(_n))


def same(a, b):
    """Identity (`is`) lifted to proxies."""
    if isinstance(a, ObjProxy) and isinstance(b, ObjProxy):
        return mk_bool(a._ref == b._ref)
    if isinstance(a, ObjProxy) or isinstance(b, ObjProxy):
        return False
    if isinstance(a, T.SymAny) and isinstance(b, T.SymAny):
        # opaque values: two wrappers of one term are the same value (wrappers are created per read)
        return mk_bool(a.t == b.t)
    if isinstance(a, T.SymAny) or isinstance(b, T.SymAny):
        # an opaque value compared with a concrete Python object (`value is _TOMBSTONE`, a module-level sentinel):
        # the opaque value MAY be that very object - Any.unwrap maps each unmodelled object to one constant, so the
        # answer is a symbolic equality and both branches are explored (answering False here would silently drop
        # the sentinel branch of the code under verification)
        return mk_bool(T.Any.unwrap(a) == T.Any.unwrap(b))
    return a is b


def old_view(obj, snapshot):
    if isinstance(obj, ObjProxy):
        return ObjProxy(obj._ref, obj._cls, snapshot)
    return obj


def new_object(cls):
    """Allocate a fresh symbolic object of heap class `cls` (fields unconstrained until set)."""
    c = _c()
    ref = c.heap.new_ref()
    c.assume(CLASS_OF(ref) == class_id(cls))
    return ObjProxy(ref, cls)

"""Runtime shims installed into the globals of every happysimulator module: builtins that
CPython would force to concrete values (len, int, float, isinstance on shimmed types, min, max,
sum, ...) become symbolic-aware.  On concrete arguments each shim behaves exactly like the
builtin it replaces (checked by selftest/differential)."""
from __future__ import annotations

import builtins as _b
import math as _math

import z3

from . import ctx as _ctx
from .ctx import OutOfReach
from .sym import (MARK, SymBool, SymInt, SymReal, SymStr, SymBytes, _SymNum, is_sym, mk_bool, mk_num,
                  num_term, to_z3_bool, trunc_real)
from .heap import ObjProxy, SymList, SymDict, SymSet, same, Box, Seq
from . import types as T


def _c():
    return _ctx.cur()


# ---------------------------------------------------------------------------- type shims
class _Meta(type):
    def __instancecheck__(cls, obj):
        return _b.isinstance(obj, cls._real) or _b.isinstance(obj, cls._syms)

    def __subclasscheck__(cls, sub):
        return _b.issubclass(sub, cls._real)

    def __eq__(cls, other):
        return other is cls or other is cls._real

    def __hash__(cls):
        return hash(cls._real)

    def __repr__(cls):
        return repr(cls._real)


class int_(int, metaclass=_Meta):
    _real = int
    _syms = (SymInt, SymBool)

    def __new__(cls, x=0, *a):
        if _b.isinstance(x, SymInt):
            return x
        if _b.isinstance(x, SymBool):
            return SymInt(num_term(x)[0])
        if _b.isinstance(x, SymReal):
            return mk_num(trunc_real(x.t))
        if hasattr(x, "__sym_int__"):
            return x.__sym_int__()
        return int(x, *a)

    from_bytes = int.from_bytes


class float_(float, metaclass=_Meta):
    _real = float
    _syms = (SymReal,)

    def __new__(cls, x=0.0):
        if _b.isinstance(x, SymReal):
            return x
        if _b.isinstance(x, (SymInt, SymBool)):
            return SymReal(z3.ToReal(num_term(x)[0]))
        return float(x)

    fromhex = float.fromhex


class bool_(int, metaclass=_Meta):
    _real = bool
    _syms = (SymBool,)

    def __new__(cls, x=False):
        if _b.isinstance(x, SymBool):
            return x
        if _b.isinstance(x, (SymInt, SymReal)):
            return mk_bool(x.t != 0)
        if hasattr(x, "__sym_bool__"):
            return mk_bool(x.__sym_bool__())
        return bool(x)


class str_(str, metaclass=_Meta):
    _real = str
    _syms = (SymStr,)

    def __new__(cls, x="", *a):
        if _b.isinstance(x, SymStr):
            return x
        if _b.isinstance(x, SymInt):
            return SymStr(z3.IntToStr(x.t))
        if is_sym(x) or _b.isinstance(x, ObjProxy):
            raise OutOfReach(f"str() of symbolic {type(x).__name__}")
        return str(x, *a)


class list_(list, metaclass=_Meta):
    _real = list
    _syms = (SymList,)

    def __new__(cls, x=()):
        if _b.isinstance(x, SymList):
            return x.copy()
        if _b.isinstance(x, SymSet):
            return _list_of_symset(x)
        if type(x).__name__ == "_MapIter" and not z3.is_int_value(z3.simplify(x.d._ty.dt.size(x.d.term))):
            # list(d.items()/d.values()) of a dict of symbolic size (was OUT-OF-REACH): a snapshot view, to be
            # iterated under a loop contract
            return type(x)(x.d.copy(), None, x.mode)
        return list(x)


def _list_of_symset(ss):
    """list(set) (was OUT-OF-REACH: iteration over a symbolic set): a free-standing snapshot of the set.
    `for k in list(s)` under a loop contract then enumerates the snapshot in arbitrary order (set mode);
    membership and len() work; indexing the result is not modelled (engine error -> OUT-OF-REACH)."""
    return ss.copy()        # (a z3 sequence with quantified "same elements" axioms made the solver answer `unknown`)


class dict_(dict, metaclass=_Meta):
    _real = dict
    _syms = (SymDict,)

    def __new__(cls, *a, **k):
        if a and _b.isinstance(a[0], SymDict):
            return a[0].copy()
        return dict(*a, **k)

    @staticmethod
    def fromkeys(keys, value=None):
        if _b.isinstance(keys, SymList):
            return _fromkeys_sym(keys, value)
        return dict.fromkeys(keys, value)


def _seq_domain(sl):
    """Array K Bool characterising the elements of a symbolic sequence (quantified definition)."""
    c = _c()
    ks = sl._elem.sort()
    dom = c.fresh("elems", z3.ArraySort(ks, z3.BoolSort()))
    k = c.fresh("ek", ks)
    c.assume(z3.ForAll([k], z3.Select(dom, k) == z3.Contains(sl.term, z3.Unit(k))))
    return dom


def _fromkeys_sym(keys, value):
    from .heap import Map
    c = _c()
    vty = T.Int if _b.isinstance(value, (int, SymInt)) and not _b.isinstance(value, bool) else None
    if vty is None:
        raise OutOfReach("dict.fromkeys over a symbolic sequence with a non-int value")
    mty = Map(keys._elem, vty)
    dom = _seq_domain(keys)
    n = c.fresh("fk_size", z3.IntSort())
    c.assume(z3.And(n >= 0, n <= keys._len()))
    t = mty.dt.mk(dom, z3.K(keys._elem.sort(), vty.unwrap(value)), n)
    mty.assume_wf(t)
    return SymDict(Box(t), mty)


class set_(set, metaclass=_Meta):
    _real = set
    _syms = (SymSet,)

    def __new__(cls, x=()):
        if _b.isinstance(x, SymSet):
            return x.copy()
        if _b.isinstance(x, SymDict):
            return x.keyset()
        if _b.isinstance(x, SymList):
            from .heap import Set
            c = _c()
            st = Set(x._elem)
            n = c.fresh("setsize", z3.IntSort())
            c.assume(z3.And(n >= 0, n <= x._len()))
            t = st.dt.mk(_seq_domain(x), n)
            st.assume_wf(t)
            return SymSet(Box(t), st)
        return set(x)


class tuple_(tuple, metaclass=_Meta):
    _real = tuple
    _syms = ()

    def __new__(cls, x=()):
        return tuple(x)


# ---------------------------------------------------------------------------- function shims
def len_(x):
    f = getattr(type(x), "__sym_len__", None)
    if f is not None:
        return f(x)
    if _b.isinstance(x, ObjProxy):
        f = x._dunder("__len__")
        if f is None:
            raise TypeError("object has no len()")
        return f(x)
    return len(x)


def abs_(x):
    return x.__abs__() if _b.isinstance(x, _SymNum) else abs(x)


def _arbitrary_member(it, key, default):
    """min/max(<dict or list of symbolic size>, key=f) (was OUT-OF-REACH): over-approximated by an ARBITRARY
    member (sound for every clause that does not depend on which member is extremal); f runs once on it, so
    an exception f can raise on some member is still explored.  Returns _NO when not applicable."""
    if not _ctx.active():
        return _NO          # native execution (bounded stand-ins, replay): plain min/max
    c = _c()
    if _b.isinstance(it, SymDict) and not (it._ty.ordered and z3.is_int_value(z3.simplify(it._ty.dt.size(it.term)))):
        it._ty.assume_wf(it.term)
        if not c.branch(it._ty.dt.size(it.term) > 0, site="member-empty"):
            if default is not _b.object:
                return default
            raise ValueError("min()/max() arg is an empty sequence")
        kt = c.fresh("member_key", it._ty.key.sort())
        c.assume(z3.Select(it._ty.dt.dom(it.term), kt))
        c.note_term(kt)
        m = it._ty.key.wrap(kt)
    elif _b.isinstance(it, SymList) and not z3.is_int_value(z3.simplify(it._len())):
        if not c.branch(it._len() > 0, site="member-empty"):
            if default is not _b.object:
                return default
            raise ValueError("min()/max() arg is an empty sequence")
        i = c.fresh("member_idx", z3.IntSort())
        c.assume(z3.And(i >= 0, i < it._len()))
        c.note_term(i)
        m = it._elem.wrap(it.term[i])
    else:
        return _NO
    key(m)
    return m


def _pick(cmp_gt, args, key=None, default=_b.object):
    if len(args) == 1 and key is not None:
        r = _arbitrary_member(args[0], key, default)
        if r is not _NO:
            return r
    if len(args) == 1:
        it = args[0]
        if _b.isinstance(it, SymList):
            n = z3.simplify(it._len())
            if not z3.is_int_value(n):
                raise OutOfReach("min/max over a sequence of symbolic length")
        items = list(it)
    else:
        items = list(args)
    if not items:
        if default is not _b.object:
            return default
        raise ValueError("min()/max() arg is an empty sequence")
    best = items[0]
    bk = key(best) if key else best
    for x in items[1:]:
        xk = key(x) if key else x
        c = (xk > bk) if cmp_gt else (xk < bk)
        if _b.isinstance(c, SymBool) and not key and _isnum(x) and _isnum(best):
            ta, ra = num_term(x)
            tb, rb = num_term(best)
            if ra != rb:
                ta = ta if ra else z3.ToReal(ta)
                tb = tb if rb else z3.ToReal(tb)
            best = mk_num(z3.If(c.t, ta, tb))
            bk = best
        elif c:
            best, bk = x, xk
    return best


def _isnum(x):
    return _b.isinstance(x, (int, float, _SymNum)) and not (_b.isinstance(x, float) and _math.isinf(x))


def _set_extreme(cmp_gt, args, key, default):
    """min/max(<symbolic set of numbers>[, default=d]): a fresh r with  r in s  and  forall q in s: r <= q
    (resp. >=) on the non-empty side; on the empty side  forall q: q not in s  and the default (or ValueError).
    Python sets are finite, so exactly one side applies to every concrete set."""
    if len(args) != 1 or key is not None or not _b.isinstance(args[0], SymSet) or not _ctx.active():
        return _NO
    st = args[0]
    ety = st._ty.elem
    if ety.sort() not in (z3.IntSort(), z3.RealSort()):
        return _NO
    from .spec import forall, implies, contains
    c = _c()
    st._ty.assume_wf(st.term)
    frozen = st.copy()                     # the set as it is now (facts below speak about this value)
    if not c.branch(st._ty.dt.size(st.term) != 0, site="set-extreme-empty"):
        # (well-formedness: size == 0 <=> the membership array is constantly False)
        if default is not _b.object:
            return default
        raise ValueError("min()/max() arg is an empty sequence")
    rt_ = c.fresh("set_max" if cmp_gt else "set_min", ety.sort())
    c.assume(frozen._has(rt_))
    c.note_term(rt_)
    r = ety.wrap(rt_)
    c.assume_value(forall(ety, (lambda q: implies(contains(frozen, q), q <= r)) if cmp_gt
                          else (lambda q: implies(contains(frozen, q), r <= q)), "smin"))
    return r


def min_(*args, key=None, default=_b.object):
    r = _set_extreme(False, args, key, default)
    if r is not _NO:
        return r
    r = _map_extreme(False, args, key, default)
    if r is not _NO:
        return r
    if not any(map(_needs_sym, args)) and not key:
        return min(*args) if default is _b.object else min(*args, default=default)
    return _pick(False, args, key, default)


def max_(*args, key=None, default=_b.object):
    r = _set_extreme(True, args, key, default)
    if r is not _NO:
        return r
    r = _map_extreme(True, args, key, default)
    if r is not _NO:
        return r
    if not any(map(_needs_sym, args)) and not key:
        return max(*args) if default is _b.object else max(*args, default=default)
    return _pick(True, args, key, default)


# ---- min/max over the values of a symbolic dict: `min(d.values(), key=f)` and `min(f(v) for v in d.values())`
_NO = _b.object()


def _genexpr_apply(gen, x):
    """the value a (not yet started, unfiltered) generator expression yields for the single input x"""
    import types as _pt
    code = gen.gi_code
    cells = tuple(_pt.CellType(gen.gi_frame.f_locals[n]) for n in code.co_freevars)
    g = _pt.FunctionType(code, gen.gi_frame.f_globals, closure=cells or None)(iter([x]))
    out = list(g)
    if len(out) != 1:
        raise OutOfReach("filtered generator expression under min/max over a symbolic dict")
    return out[0]


def _map_extreme(cmp_gt, args, key, default):
    """An ARBITRARY extremal element (min/max return the first one in iteration order): a witness key
    k* of the dict with  forall k in d: not f(d[k]) < f(d[k*])  (resp. >).  Only d.values()."""
    import types as _pt
    from .heap import _MapIter, Ref
    if len(args) != 1:
        return _NO
    it, gen = args[0], None
    if _b.isinstance(it, _pt.GeneratorType) and it.gi_frame is not None and key is None:
        inner = it.gi_frame.f_locals.get(".0")
        if _b.isinstance(inner, _pt.GeneratorType) and inner.gi_frame is not None \
                and inner.gi_code is _MapIter.__iter__.__code__:
            gen, it = it, inner.gi_frame.f_locals.get("self")
    if not _b.isinstance(it, _MapIter) or it.mode != "v":
        return _NO
    d = it.d
    mty = d._ty
    if z3.is_int_value(z3.simplify(mty.dt.size(d.term))) and mty.ordered:
        return _NO                                    # concrete ordered dict: the generic path iterates it
    c = _c()
    mty.assume_wf(d.term)
    if not c.branch(mty.dt.size(d.term) > 0, site="extreme-empty"):
        if default is not _b.object:
            return default
        raise ValueError("min()/max() arg is an empty sequence")
    f = (lambda v: _genexpr_apply(gen, v)) if gen is not None else (key if key is not None else (lambda v: v))
    m = d.term
    kt = c.fresh("extreme_key", mty.key.sort())
    c.assume(z3.Select(mty.dt.dom(m), kt))
    c.note_term(kt)
    best = mty.val.wrap(z3.Select(mty.dt.val(m), kt), d._valloc(kt))
    bk = f(best)

    def elem(kq):
        t = z3.Select(mty.dt.val(m), kq)
        vty = mty.val
        if _b.isinstance(vty, Ref):
            if vty.nullable or vty.variants:
                raise OutOfReach("min/max over dict values of nullable / variant reference type")
            return ObjProxy(t, vty.cls)
        if vty in (T.Int, T.Real, T.Bool, T.Str):
            return vty.wrap(t)
        raise OutOfReach(f"min/max over dict values of type {vty.name}")

    from .spec import forall, implies, Not
    c.assume_value(forall(mty.key, lambda kq: implies(
        mk_bool(z3.Select(mty.dt.dom(m), kq.t if hasattr(kq, "t") else kq._ref)),
        Not((f(elem(kq.t if hasattr(kq, "t") else kq._ref)) > bk) if cmp_gt else (f(elem(kq.t if hasattr(kq, "t") else kq._ref)) < bk))),
        "extreme"))
    return bk if gen is not None else best


def _needs_sym(x):
    if is_sym(x) or _b.isinstance(x, (SymList, SymDict, SymSet, ObjProxy)):
        return True
    if _b.isinstance(x, (list, tuple)):
        return any(map(_needs_sym, x))
    return False


def sum_(it, start=0):
    if _b.isinstance(it, SymList):
        n = z3.simplify(it._len())
        if not z3.is_int_value(n):
            raise OutOfReach("sum over a sequence of symbolic length needs a loop contract")
    src = _genexpr_source(it)
    if src is not None and not z3.is_int_value(z3.simplify(src._len())):
        # sum(f(x) for x in <list of symbolic length>): over-approximated by an ARBITRARY number of the
        # kind of the first term (sound: nothing is known about the total); empty list -> start
        first = next(it, _b.object)
        if first is _b.object:
            return start
        if _b.isinstance(first, (int, SymInt, SymBool)) and _b.isinstance(start, (int, SymInt)):
            return T.Int.fresh("sum_any")
        if _b.isinstance(first, (int, float, _SymNum)) and _b.isinstance(start, (int, float, _SymNum)):
            return T.Real.fresh("sum_any")
        raise OutOfReach("sum of non-numeric terms over a sequence of symbolic length")
    r = start
    for x in it:
        r = r + x
    return r


def _genexpr_source(it):
    """the SymList a not-yet-started generator expression iterates directly, else None"""
    import types as _pt
    if not _b.isinstance(it, _pt.GeneratorType) or it.gi_frame is None:
        return None
    inner = it.gi_frame.f_locals.get(".0")
    from .vec import SymVec
    if _b.isinstance(inner, _pt.GeneratorType) and inner.gi_frame is not None \
            and inner.gi_code in (SymList.__iter__.__code__, SymVec.__iter__.__code__):
        s = inner.gi_frame.f_locals.get("self")
        return s if _b.isinstance(s, (SymList, SymVec)) else None
    return None


def any_(it):
    for x in it:
        if x:
            return True
    return False


def all_(it):
    for x in it:
        if not x:
            return False
    return True


def isinstance_(x, k):
    return _b.isinstance(x, k)


def round_(x, n=None):
    if _b.isinstance(x, SymReal):
        if n is not None:
            raise OutOfReach("round(x, n) on symbolic real")
        # round-half-even on reals
        f = z3.ToInt(x.t)
        d = x.t - z3.ToReal(f)
        r = z3.If(d < 0.5, f, z3.If(d > 0.5, f + 1, z3.If(f % 2 == 0, f, f + 1)))
        return mk_num(r)
    if _b.isinstance(x, SymInt):
        return x
    return round(x) if n is None else round(x, n)


def range_(*a):
    if any(_b.isinstance(x, (SymInt, SymBool)) for x in a):
        vals = []
        for x in a:
            if _b.isinstance(x, SymInt):
                t = z3.simplify(x.t)
                if not z3.is_int_value(t):
                    return _SymRange(*a)
                vals.append(t.as_long())
            else:
                vals.append(x)
        return range(*vals)
    return range(*a)


class _SymRange:
    CAP = 6

    def __init__(self, *a):
        if len(a) == 1:
            self.lo, self.hi, self.step = 0, a[0], 1
        elif len(a) == 2:
            self.lo, self.hi, self.step = a[0], a[1], 1
        else:
            self.lo, self.hi, self.step = a
        if not _b.isinstance(self.step, int) or self.step not in (1, -1):
            raise OutOfReach("symbolic range with step")

    def __iter__(self):
        if self.step != 1:      # a descending symbolic range is only supported under a loop contract (loops.py)
            raise OutOfReach("symbolic range with step")
        i = self.lo
        n = 0
        while True:
            c = i < self.hi
            if not c:
                return
            n += 1
            if n > self.CAP:
                raise OutOfReach("range() with symbolic bound needs a loop invariant")
            yield i
            i = i + 1


def _sorted_symset(ss):
    """sorted(set): a fresh sequence that is strictly increasing and has exactly the set's elements."""
    from .heap import Seq as _Seq
    c = _c()
    ety = ss._ty.elem
    sq = c.fresh("sorted", z3.SeqSort(ety.sort()))
    ss._ty.assume_wf(ss.term)
    c.assume(z3.Length(sq) == ss._ty.dt.size(ss.term))
    i, j = c.fresh("si", z3.IntSort()), c.fresh("sj", z3.IntSort())
    c.assume(z3.ForAll([i, j], z3.Implies(z3.And(0 <= i, i < j, j < z3.Length(sq)), sq[i] < sq[j])))
    k = c.fresh("sk", ety.sort())
    c.assume(z3.ForAll([k], z3.Select(ss._ty.dt.dom(ss.term), k) == z3.Contains(sq, z3.Unit(k))))
    r = SymList(Box(sq), ety)
    r._from_set = ss.copy()         # lets a loop contract with as_set=True enumerate the set instead (loops.for_begin)
    return r


def _already_ordered(lst, key, reverse):
    """does the path condition entail that the symbolic-length sequence is already in (non-strict) key
    order?  Then sorted() (stable) returns it unchanged.  Pure query: nothing is assumed or recorded."""
    from .spec import forall, implies
    from .sym import mk_bool as _mkb
    c = _c()
    src = lst.term
    ety = lst._elem
    n = z3.Length(src)
    before = len(c.decisions)

    def k_of(t):
        x = ety.wrap(t)
        return key(x) if key else x

    def goal(i):
        def inner(j):
            a, b = k_of(src[i.t]), k_of(src[j.t])
            le = (a >= b) if reverse else (a <= b)
            return implies(_mkb(z3.And(0 <= i.t, i.t < j.t, j.t < n)), le)
        return forall(T.Int, inner, "so_j")
    try:
        term = c._goal_term(forall(T.Int, goal, "so_i"))
    except OutOfReach:
        return False
    if len(c.decisions) != before:
        raise OutOfReach("sorted(): the key function forks on a generic element")
    s = c.solver
    s.push()
    s.add(z3.Not(term))
    r = s.check()
    s.pop()
    if r == z3.unsat:
        return True
    s2 = z3.Solver()
    s2.set("timeout", 10000)
    s2.add(*c.pc)
    s2.add(*c.qfacts)
    s2.add(z3.Not(term))
    return s2.check() == z3.unsat


def sorted_(it, key=None, reverse=False):
    if _b.isinstance(it, SymSet) and key is None and not reverse and it._ty.elem in (T.Int, T.Str):
        return _sorted_symset(it)
    if _b.isinstance(it, SymList):
        n = z3.simplify(it._len())
        if not z3.is_int_value(n):
            if _already_ordered(it, key, reverse):
                return it.copy()        # a stable sort of an already ordered sequence is the sequence itself
            raise OutOfReach("sorted() over a sequence of symbolic length (not provably ordered already)")
    items = list(it)
    # insertion sort driven by symbolic comparisons (stable), concrete length only
    out = []
    for x in items:
        xk = key(x) if key else x
        pos = len(out)
        for j in range(len(out) - 1, -1, -1):
            yk = key(out[j]) if key else out[j]
            if (xk > yk) if reverse else (xk < yk):
                pos = j
            else:
                break
        out.insert(pos, x)
    return out


class _SymEnumerate:
    """`enumerate(seq)` of a symbolic sequence: iterates natively (index, element); a `for` loop under a loop
    contract recognises it (loops.for_begin) and cuts it like a loop over `seq`, handing the body (start + i, seq[i])"""

    def __init__(self, seq, start):
        self.seq, self.start = seq, start

    def __iter__(self):
        i = self.start
        for x in self.seq:
            yield i, x
            i += 1


def enumerate_(it, start=0):
    if (_b.isinstance(it, SymList) or type(it).__name__ == "SymVec") and _ctx.active():   # (SymVec: pyvc/vec.py lists)
        return _SymEnumerate(it, start)     # additive: same (index, element) pairs as the generator below
    return _enumerate_gen(it, start)


def _enumerate_gen(it, start):
    i = start
    for x in it:
        yield i, x
        i += 1


_HASH_P = (1 << 61) - 1
_PY_HASH = {"str": z3.Function("py_hash_str", z3.IntSort(), z3.StringSort(), z3.IntSort()),
            "bytes": z3.Function("py_hash_bytes", z3.IntSort(), z3.StringSort(), z3.IntSort())}


def hash_seed_term():
    """the ghost 'hash seed' (PYTHONHASHSEED) of the environment the code currently runs in: ctx.ghost_args
    ["hash_seed"], an Int term; a spec driver that runs a function under two environments overwrites it"""
    c = _c()
    seed = c.ghost_args.get("hash_seed")
    if seed is None:
        seed = c.ghost_args["hash_seed"] = c.fresh("hash_seed", z3.IntSort())
    return seed


def hash_(x):
    if _b.isinstance(x, SymInt):
        # CPython: hash(int) is the int modulo 2**61-1 (sign kept, -1 mapped to -2); environment independent.
        t = x.t
        m = z3.If(t >= 0, t % _HASH_P, -((-t) % _HASH_P))
        return mk_num(z3.If(m == -1, z3.IntVal(-2), m))
    if _b.isinstance(x, (SymStr, SymBytes)) or (_b.isinstance(x, (str, bytes)) and _ctx.active() and "hash_seed" in _c().ghost_args):
        # str/bytes hashing is randomised per process: an uninterpreted function of (hash seed, value); concrete
        # strings too once a spec has introduced the hash-seed environment (ghost_args["hash_seed"])
        if _b.isinstance(x, (str, bytes)):
            kind, vt = ("str", z3.StringVal(x)) if _b.isinstance(x, str) else ("bytes", z3.StringVal(x.decode("latin-1")))
        else:
            kind, vt = ("str" if _b.isinstance(x, SymStr) else "bytes"), x.t
        r = _PY_HASH[kind](hash_seed_term(), vt)
        _c().assume(z3.And(r >= -(1 << 63), r < (1 << 63)))
        return mk_num(r)
    if _b.isinstance(x, tuple) and _ctx.active() and "hash_seed" in _c().ghost_args:
        # tuple hash: a fixed combination of the element hashes (uninterpreted), so it reads the hash seed exactly
        # when an element's hash does
        comb = z3.Function("py_hash_combine", z3.IntSort(), z3.IntSort(), z3.IntSort())
        acc = z3.IntVal(len(x))
        for e in x:
            acc = comb(acc, num_term(hash_(e))[0])
        return mk_num(acc)
    if is_sym(x) or _b.isinstance(x, ObjProxy):
        raise OutOfReach("hash() of symbolic value")
    return hash(x)


class _SymBin:
    """bin(x) of a symbolic int: only `.count("1")` (population count, uninterpreted) is modelled"""

    def __init__(self, x):
        self.x = x

    def count(self, sub):
        if sub != "1":
            raise OutOfReach("bin(symbolic).count of something other than '1'")
        from . import bits
        return bits.popcount(self.x)


def bin_(x):
    if _b.isinstance(x, SymInt):
        return _SymBin(x)
    return bin(x)


def divmod_(a, b):
    if is_sym(a) or is_sym(b):
        return a // b, a % b
    return divmod(a, b)


def id_(x):
    """id(obj) of a symbolic object reference: its address term (references of all heap classes share one
    integer address space, so this is injective on live objects - all that CPython guarantees); the builtin
    otherwise.  Additive: the repo calls id() only in parallel/ and visual/."""
    if _b.isinstance(x, ObjProxy):
        return mk_num(x._ref)
    return id(x)


def is_(a, b):
    return same(a, b)


def is_not_(a, b):
    r = same(a, b)
    return (not r) if _b.isinstance(r, bool) else ~r


def fstr_(*parts):
    """f-string: concrete parts are formatted natively; any symbolic hole makes the result a
    symbolic string built by concatenation (ints via int.to.str), used for computed keys."""
    if not any(is_sym(p[0]) or _b.isinstance(p[0], (ObjProxy, SymList, SymDict, SymSet)) for p in parts if _b.isinstance(p, tuple)):
        out = []
        for p in parts:
            if _b.isinstance(p, tuple):
                v, conv, spec = p
                if conv == "r":
                    v = repr(v)
                elif conv == "s":
                    v = str(v)
                elif conv == "a":
                    v = ascii(v)
                out.append(format(v, spec))
            else:
                out.append(p)
        return "".join(out)
    terms = []
    for p in parts:
        if _b.isinstance(p, tuple):
            v, conv, spec = p
            if _b.isinstance(v, SymStr):
                terms.append(v.t)
            elif _b.isinstance(v, SymInt) and not spec:
                terms.append(z3.IntToStr(v.t))
            elif is_sym(v) or _b.isinstance(v, (ObjProxy, SymList, SymDict, SymSet)):
                return MARK
            else:
                terms.append(z3.StringVal(format(v, spec)))
        else:
            terms.append(z3.StringVal(p))
    return SymStr(z3.Concat(*terms) if len(terms) > 1 else terms[0])


class _TypeMeta(type):
    def __instancecheck__(cls, obj):
        return _b.isinstance(obj, type)


class type_(metaclass=_TypeMeta):
    """type(x): the declared class for a symbolic object reference, the builtin otherwise"""

    def __new__(cls, *a, **k):
        if len(a) == 1 and not k:
            x = a[0]
            if _b.isinstance(x, ObjProxy):
                return x._cls
            return type(x)
        return type(*a, **k)


SHIMS = {
    "type": type_,
    "int": int_, "float": float_, "bool": bool_, "str": str_, "list": list_, "dict": dict_, "set": set_,
    "tuple": tuple_, "len": len_, "abs": abs_, "min": min_, "max": max_, "sum": sum_, "any": any_,
    "all": all_, "round": round_, "range": range_, "sorted": sorted_, "enumerate": enumerate_,
    "hash": hash_, "divmod": divmod_, "bin": bin_, "id": id_,
    "__pyvc_is": is_, "__pyvc_is_not": is_not_, "__pyvc_fstr": fstr_,
}

"""Vec(T): a Python list modelled as (array Int -> T, length) instead of a z3 sequence.

Meant for lists used as fixed tables (bit words, counter rows, registers): index reads/writes
become array select/store, which the solver handles far better than sequence surgery.  Supports
indexing, item assignment, len, append, pop() of the last element, clear, copy, prefix slices,
`[x] * n` with symbolic n (see sym.py), iteration (concrete length, else loop contract).
Everything else is OutOfReach.  Value semantics like the other containers.
"""
from __future__ import annotations

import z3

from . import ctx as _ctx
from .ctx import OutOfReach
from .sym import MARK, SymInt, mk_bool, mk_num
from .types import Ty, _dt_cache, _mangle
from .heap import Box, _default_of, _idx_term


def _c():
    return _ctx.cur()


# Spec-registered callbacks fn(kind, old_term, other_term, new_term, ty) -> z3 Bool | None, assumed after `sort` /
# `extend` of a SymVec (kind "sort" | "extend"): facts about SPEC-DEFINED functions of the list that the engine cannot
# derive ("a sum is invariant under permutation").  Each one is a trusted fact of the spec that registers it.
HOOKS = []


def _run_hooks(kind, old, other, new, ty):
    for h in HOOKS:
        f = h(kind, old, other, new, ty)
        if f is not None:
            _c().assume(f)


def _consts(t, limit=400):
    """the uninterpreted constants of a (small) term"""
    out, stack, seen = [], [t], set()
    while stack and len(seen) < limit:
        x = stack.pop()
        if x.get_id() in seen:
            continue
        seen.add(x.get_id())
        if z3.is_const(x) and x.decl().kind() == z3.Z3_OP_UNINTERPRETED:
            out.append(x)
        elif z3.is_app(x):
            stack.extend(x.children())
    return out


class Vec(Ty):
    def __init__(self, elem):
        self.elem = elem
        self.name = f"Vec({elem.name})"
        k = ("vec", str(elem.sort()))
        if k not in _dt_cache:
            d = z3.Datatype(f"Vec_{_mangle(elem.sort())}")
            d.declare("mk", ("arr", z3.ArraySort(z3.IntSort(), elem.sort())), ("len", z3.IntSort()))
            _dt_cache[k] = d.create()
        self.dt = _dt_cache[k]

    def sort(self):
        return self.dt

    def mk(self, arr, n):
        return z3.simplify(self.dt.mk(arr, n))

    def empty(self):
        return self.dt.mk(z3.K(z3.IntSort(), _default_of(self.elem.sort())), z3.IntVal(0))

    def assume_wf(self, term):
        _c().assume(self.dt.len(term) >= 0)

    def wrap(self, term, loc=None):
        return SymVec(loc if loc is not None else Box(term), self)

    def unwrap(self, v):
        if isinstance(v, SymVec):
            if str(v._ty.sort()) != str(self.sort()):
                raise OutOfReach(f"{v._ty.name} stored where {self.name} is declared")
            return v._loc.get()
        if isinstance(v, (list, tuple)):
            if len(v) > 8 and type(v[0]) in (int, float, bool) and all(type(x) is type(v[0]) and x == v[0] for x in v):
                return self.dt.mk(z3.K(z3.IntSort(), self.elem.unwrap(v[0])), z3.IntVal(len(v)))    # [c] * n
            arr = z3.K(z3.IntSort(), _default_of(self.elem.sort()))
            for i, x in enumerate(v):
                arr = z3.Store(arr, z3.IntVal(i), self.elem.unwrap(x))
            return self.dt.mk(arr, z3.IntVal(len(v)))
        raise OutOfReach(f"{type(v).__name__} stored where {self.name} is declared")

    def concretize(self, model, term):
        v = model.eval(term, model_completion=True)
        n = model.eval(self.dt.len(v), model_completion=True).as_long()
        return [self.elem.concretize(model, z3.Select(self.dt.arr(v), z3.IntVal(i))) for i in range(max(0, min(n, 64)))]


class VecElemLoc:
    __slots__ = ("parent", "ty", "i")

    def __init__(self, parent, ty, i):
        self.parent, self.ty, self.i = parent, ty, i

    def get(self):
        return z3.Select(self.ty.dt.arr(self.parent.get()), self.i)

    def set(self, t):
        v = self.parent.get()
        dt = self.ty.dt
        self.parent.set(self.ty.mk(z3.Store(dt.arr(v), self.i, t), dt.len(v)))


class SymVec:
    ITER_CAP = 6

    def __init__(self, loc, ty: Vec):
        self._loc, self._ty = loc, ty

    @property
    def term(self):
        return self._loc.get()

    @property
    def _elem(self):
        return self._ty.elem

    def arr(self):
        return self._ty.dt.arr(self.term)

    def _len(self):
        return z3.simplify(self._ty.dt.len(self.term))

    def __sym_len__(self):
        self._ty.assume_wf(self.term)
        return mk_num(self._len())

    def __len__(self):
        t = self._len()
        if z3.is_int_value(t):
            return t.as_long()
        raise OutOfReach("len() of a symbolic list through the C API (builtin not shimmed)")

    def __bool__(self):
        self._ty.assume_wf(self.term)
        return _c().branch(self._len() != 0)

    def __sym_bool__(self):
        return self._len() != 0

    def _norm_index(self, i):
        n = self._len()
        if isinstance(i, int) and not isinstance(i, bool) and i < 0:
            it = n + i
        else:
            it = _idx_term(i)
            if isinstance(i, SymInt):
                it = z3.If(it < 0, n + it, it)
        return z3.simplify(it)

    def _at(self, it):
        t = z3.Select(self.arr(), it)
        if isinstance(self._ty.elem, Vec):
            self._ty.elem.assume_wf(t)
        return self._ty.elem.wrap(t, VecElemLoc(self._loc, self._ty, it))

    def __getitem__(self, i):
        if isinstance(i, slice):
            return self._slice(i)
        it = self._norm_index(i)
        if not _c().branch(z3.And(it >= 0, it < self._len()), site="idx"):
            raise IndexError("list index out of range (symbolic)")
        return self._at(it)

    def __setitem__(self, i, v):
        it = self._norm_index(i)
        if not _c().branch(z3.And(it >= 0, it < self._len()), site="idx"):
            raise IndexError("list assignment index out of range (symbolic)")
        VecElemLoc(self._loc, self._ty, it).set(self._ty.elem.unwrap(v))

    def _slice(self, sl):
        if sl.step not in (None, 1) or sl.start not in (None, 0):
            raise OutOfReach("slice of a Vec other than a prefix [:k]")
        n = self._len()
        if sl.stop is None:
            hi = n
        else:
            t = _idx_term(sl.stop)
            hi = z3.If(t < 0, z3.If(n + t < 0, z3.IntVal(0), n + t), z3.If(t > n, n, t))
        return SymVec(Box(self._ty.mk(self.arr(), hi)), self._ty)

    def append(self, v):
        self._ty.assume_wf(self.term)
        n = self._len()
        self._loc.set(self._ty.mk(z3.Store(self.arr(), n, self._ty.elem.unwrap(v)), n + 1))

    def pop(self, i=-1):
        if not (isinstance(i, int) and i == -1):
            raise OutOfReach("Vec.pop of an element other than the last")
        n = self._len()
        if not _c().branch(n > 0, site="pop"):
            raise IndexError("pop from empty list (symbolic)")
        v = self._ty.elem.wrap(z3.Select(self.arr(), n - 1))
        self._loc.set(self._ty.mk(self.arr(), n - 1))
        return v

    def clear(self):
        self._loc.set(self._ty.mk(self.arr(), z3.IntVal(0)))

    def copy(self):
        return SymVec(Box(self.term), self._ty)

    def extend(self, vs):
        if isinstance(vs, (list, tuple)):
            for x in vs:
                self.append(x)
            return
        if isinstance(vs, SymVec) and str(vs._ty.sort()) == str(self._ty.sort()):
            # additive: the concatenation as a lambda array (both terms are read first: `v.extend(v)` doubles v)
            self._ty.assume_wf(self.term)
            vs._ty.assume_wf(vs.term)
            old, other = self.term, vs.term
            a, n, b, m = self.arr(), self._len(), vs.arr(), vs._len()
            from .spec import forall, implies
            from . import types as T
            c = _c()
            cat = c.fresh("vec_cat", z3.ArraySort(z3.IntSort(), self._ty.elem.sort()))

            def tail(k):
                if getattr(c, "inst_depth", 0) > 0 and z3.is_const(k.t):
                    c.note_term(z3.simplify(k.t - n))       # facts about `vs` reach the copied elements
                return implies(mk_bool(z3.And(n <= k.t, k.t < n + m)), mk_bool(z3.Select(cat, k.t) == z3.Select(b, k.t - n)))
            c.assume_value(forall(T.Int, lambda k: implies(mk_bool(z3.And(0 <= k.t, k.t < n)),
                                                           mk_bool(z3.Select(cat, k.t) == z3.Select(a, k.t))), "vx_k"))
            c.assume_value(forall(T.Int, tail, "vx_t"))
            self._loc.set(self._ty.mk(cat, n + m))
            _run_hooks("extend", old, other, self.term, self._ty)
            return
        raise OutOfReach("Vec.extend with a symbolic argument")

    def sort(self, key=None, reverse=False):
        """list.sort() (additive): a fresh array that is ordered by `key` (pairwise) and a permutation of the old
        one - two index maps pi / pinv, mutually inverse on [0, n), with new[i] == old[pi[i]].  The permutation
        fact, instantiated on an index i, registers pi[i] as an instantiation term, so that an element-wise fact
        about the old list (class invariant) reaches the elements of the sorted list."""
        from .spec import forall, implies
        from . import types as T
        c = _c()
        ty = self._ty
        ty.assume_wf(self.term)
        old = self.term
        a, n = self.arr(), self._len()
        ia = z3.ArraySort(z3.IntSort(), z3.IntSort())
        p = c.fresh("sorted_arr", z3.ArraySort(z3.IntSort(), ty.elem.sort()))
        pi, pinv = c.fresh("sort_pi", ia), c.fresh("sort_pinv", ia)

        def k_of(t):
            x = ty.elem.wrap(t)
            return key(x) if key is not None else x

        def ordered(i):
            def inner(j):
                x, y = k_of(z3.Select(p, i.t)), k_of(z3.Select(p, j.t))
                return implies(mk_bool(z3.And(0 <= i.t, i.t < j.t, j.t < n)), (x >= y) if reverse else (x <= y))
            return forall(T.Int, inner, "so_j")

        def _derived(t):
            return any(str(x) in (str(pi), str(pinv)) for x in _consts(t))

        def perm(i):
            pii = z3.Select(pi, i.t)
            if getattr(c, "inst_depth", 0) > 0 and not _derived(i.t):
                c.note_term(pii)
            return implies(mk_bool(z3.And(0 <= i.t, i.t < n)), mk_bool(z3.And(
                0 <= pii, pii < n, z3.Select(p, i.t) == z3.Select(a, pii), z3.Select(pinv, pii) == i.t)))

        def perm_inv(j):
            pj = z3.Select(pinv, j.t)
            return implies(mk_bool(z3.And(0 <= j.t, j.t < n)), mk_bool(z3.And(
                0 <= pj, pj < n, z3.Select(pi, pj) == j.t)))
        before = len(c.decisions)
        c.assume_value(forall(T.Int, ordered, "so_i"))
        c.assume_value(forall(T.Int, perm, "sp_i"))
        c.assume_value(forall(T.Int, perm_inv, "sp_j"))
        if len(c.decisions) != before:
            raise OutOfReach("list.sort(): the key function forks on a generic element")
        self._loc.set(ty.mk(p, n))
        _run_hooks("sort", old, None, self.term, ty)

    def __iter__(self):
        i = 0
        while True:
            t = self._len()
            if z3.is_int_value(t):
                if i >= t.as_long():
                    return
            else:
                if i >= self.ITER_CAP:
                    raise OutOfReach("iteration over a list of symbolic length needs a loop invariant")
                if not _c().branch(self._len() > i, site=None):
                    return
            yield self._at(z3.IntVal(i))
            i += 1

    def __contains__(self, v):
        raise OutOfReach("`in` on a Vec")

    def __eq__(self, o):
        if isinstance(o, (list, tuple)):
            o = SymVec(Box(self._ty.unwrap(o)), self._ty)
        if not isinstance(o, SymVec) or str(o._ty.sort()) != str(self._ty.sort()):
            return False
        k = _c().fresh("veq", z3.IntSort())
        return mk_bool(z3.And(self._len() == o._len(),
                              z3.ForAll([k], z3.Implies(z3.And(0 <= k, k < self._len()),
                                                        z3.Select(self.arr(), k) == z3.Select(o.arr(), k)))))

    def __ne__(self, o):
        r = self.__eq__(o)
        return (not r) if isinstance(r, bool) else ~r

    __hash__ = None

    def __repr__(self):
        return f"SymVec({self.term})"

    def __format__(self, s):
        return MARK


def repeat(items, n):
    """`[x] * n` for a symbolic int n: a Vec of length max(n, 0) holding x everywhere"""
    from .sym import SymReal, SymBool, num_term
    from . import types as T
    if not isinstance(items, list) or len(items) != 1:
        raise OutOfReach("list * symbolic int for a list that is not a single-element list")
    x = items[0]
    if isinstance(x, (bool, SymBool)):
        ety = T.Bool
    elif isinstance(x, (int, SymInt)):
        ety = T.Int
    elif isinstance(x, (float, SymReal)):
        ety = T.Real
    else:
        raise OutOfReach(f"[{type(x).__name__}] * symbolic int")
    ty = Vec(ety)
    nt = num_term(n)[0]
    return SymVec(Box(ty.mk(z3.K(z3.IntSort(), ety.unwrap(x)), z3.If(nt > 0, nt, z3.IntVal(0)))), ty)

"""Verification driver: one task = one function under contract (or one lemma)."""
from __future__ import annotations

import hashlib
import inspect
import os
import signal
import time
import traceback
import types as _pytypes

import z3

from . import ctx as _ctx
from .ctx import Ctx, OutOfReach, PathEnd, SpecError, explore, REPO
from .heap import Heap, ObjProxy, REG, Ref, new_object, old_view, SymList, SymDict, SymSet
from .sym import to_z3_bool, is_sym
from . import spec as _spec
from . import types as T
from . import gen as _gen


class NS:
    """Namespace handed to contract clauses."""

    def __init__(ns, **kw):
        ns.__dict__.update(kw)

    def old(ns, obj):
        return old_view(obj, ns._old)

    def pre(ns, obj):
        return old_view(obj, ns._seg)

    def since(ns, obj):
        """view at the latest of: function entry, last resume after a yield, last world-havoc loop head - the start
        of the current uninterrupted stretch of the function's OWN steps (use for two-state clauses in functions
        whose yields sit inside a cut loop)"""
        from . import ctx as _ctx
        st = getattr(_ctx.cur(), "seg_state", None)
        return old_view(obj, st if st is not None else ns._seg)


def _engine_error(e):
    msg = str(e)
    if isinstance(e, (TypeError, AttributeError)) and any(k in msg for k in ("Sym", "ObjProxy", "_Unbound", "_SymRange", "_MapIter")):
        return True
    tb = e.__traceback__
    last = None
    while tb is not None:
        last = tb
        tb = tb.tb_next
    if last is not None:
        fn = last.tb_frame.f_code.co_filename
        if "/pyvc/" in fn and not isinstance(e, (IndexError, KeyError, ValueError, ZeroDivisionError)):
            return True
        if "/z3/" in fn:
            return True
    return False


def find_function(owner, name):
    if isinstance(owner, type):
        for k in owner.__mro__:
            if name in k.__dict__:
                f = k.__dict__[name]
                if isinstance(f, (staticmethod, classmethod)):
                    f = f.__func__
                if isinstance(f, property):
                    f = f.fget
                return f
        raise SpecError(f"{owner.__name__}.{name} not found")
    mod = owner if isinstance(owner, _pytypes.ModuleType) else __import__(owner, fromlist=["x"])
    obj = mod
    for part in name.split("."):
        obj = getattr(obj, part)
    return obj


def func_identity(f):
    """(relative file, qualname, first line, sha of the function's source text)"""
    try:
        f0 = inspect.unwrap(f)
        src = inspect.getsource(f0)
        file = os.path.relpath(inspect.getsourcefile(f0), REPO)
        line = f0.__code__.co_firstlineno
    except Exception:
        return {"file": "?", "qualname": getattr(f, "__qualname__", str(f)), "src_sha": "?", "line": 0}
    return {"file": file, "qualname": f0.__qualname__, "line": line,
            "src_sha": hashlib.sha1(src.encode()).hexdigest()[:16]}


# ---------------------------------------------------------------------------- stubs
class _Patch:
    def __init__(self):
        self.saved = []

    def set(self, owner, name, value):
        if isinstance(owner, type):
            had = name in owner.__dict__
            self.saved.append((owner, name, owner.__dict__.get(name), had))
            setattr(owner, name, value)
        else:
            mod = owner if isinstance(owner, _pytypes.ModuleType) else __import__(owner, fromlist=["x"])
            self.saved.append((mod, name, getattr(mod, name), True))
            setattr(mod, name, value)

    def undo(self):
        for owner, name, val, had in reversed(self.saved):
            if had:
                setattr(owner, name, val)
            else:
                delattr(owner, name)
        self.saved.clear()


def _alloc_new(cls, *a, **k):
    """__new__ of registered heap classes during symbolic runs: a fresh reference (alloc+1), then
    the real __init__ runs on the proxy.  type.__call__ skips __init__ for non-instances."""
    if not _ctx.active():
        return object.__new__(cls)
    p = new_object(cls)
    cls.__init__(p, *a, **k)
    return p


def make_stub(contract):
    """Replace a callee by its contract: assert requires, havoc modifies (of self only),
    assume ensures.  Generator contracts become a one-yield generator (one havoc point)."""
    real = find_function(contract.owner, contract.name)
    sig = inspect.signature(real)
    ann = getattr(real, "__annotations__", {}).get("return", None)
    if contract.returns is None and ann not in (None, "None", type(None)) and not getattr(contract, "returns_none_ok", False):
        raise SpecError(f"contract of {contract.qualname} is used as a stub but has no returns= type "
                        f"(the function is annotated -> {ann}); a stub without it would return None")

    def stub(*a, **k):
        if not _ctx.active():
            return real(*a, **k)
        c = _ctx.cur()
        ba = sig.bind(*a, **k)
        ba.apply_defaults()
        vals = dict(ba.arguments)
        selfv = vals.get("self")
        s = NS(_old=c.heap.snapshot(), _seg=c.heap.snapshot(), result=None, exc=None, **vals)
        for i, r in enumerate(contract.requires):
            rn, rf = r if isinstance(r, tuple) else (f"req{i}", r)
            c.oblige(f"call:{contract.qualname}/{rn}", rf(s), kind="callsite")
        # havoc
        if contract.modifies == "world":
            # opaque user code: every heap field may change except the listed frame (`keeps`)
            keep = {}
            for key in getattr(contract, "keeps", ()):
                key = tuple(key)
                ty = c.heap.tys.get(key)
                if ty is None:
                    ci = REG.by_name.get(key[0])
                    ty = (ci.fields.get(key[1]) or ci.ghost.get(key[1])) if ci else None
                if ty is None:
                    raise SpecError(f"stub {contract.qualname}: unknown frame field {key}")
                keep[key] = (c.heap.array(key, ty), c.heap.st.key_epoch.get(key, c.heap.st.base_epoch))
            c.heap.havoc(None)
            for key, (arr, ep) in keep.items():
                c.heap.st.arrays[key] = arr
                c.heap.st.key_epoch[key] = ep
            # opaque user code goes through public APIs: class invariants of the objects in focus
            # still hold afterwards (assumption listed with every world-stub)
            for o in getattr(c, "focus_objects", ()):
                check_invariants(c, o, "after-opaque-call", assume=True)
        elif isinstance(selfv, ObjProxy):
            mods = contract.modifies
            if mods is None:
                mods = []
                for kcls in selfv._cls.__mro__:
                    ci = REG.classes.get(kcls)
                    if ci:
                        mods.extend(list(ci.fields) + list(ci.ghost))
            for f in mods:
                if isinstance(f, tuple) and len(f) == 3 and f[0] == "*":
                    # ("*", ClassName, field): the callee may write that field of ANY object of the class
                    c.heap.havoc(keys=[(f[1], f[2])])
                    continue
                tgt, fname = (selfv, f) if isinstance(f, str) else (f[0](s), f[1])
                owner, ty = REG.field(tgt._cls, fname)
                arr = c.heap.array((owner, fname), ty)
                nv = c.fresh(f"st_{contract.name}_{fname}", ty.sort())
                c.heap.st.arrays[(owner, fname)] = z3.Store(arr, tgt._ref, nv)
        if contract.returns is not None:
            s.result = contract.returns.fresh(f"ret_{contract.name}")
        for i, e in enumerate(contract.ensures):
            en, ef = e if isinstance(e, tuple) else (f"ens{i}", e)
            c.spec_mode += 1
            try:
                c.assume_value(ef(s))
            finally:
                c.spec_mode -= 1
        # ghost call trace: lets the caller's contract speak about which callees ran, with what
        c.ghost_args.setdefault("trace", []).append((contract.qualname, vals, s.result))
        return s.result
    if getattr(contract, "stub_yield", None) is not None:
        # generator callee (opt-in: `contract.stub_yield = fn(s) -> yielded value`): one yield - the caller's
        # driver lets the environment run there - then requires / havoc / ensures apply atomically in the
        # resumed state, and the generator returns the contract's result
        plain = stub

        def stub(*a, **k):      # noqa: F811
            if not _ctx.active():
                return real(*a, **k)
            ba0 = sig.bind(*a, **k)
            ba0.apply_defaults()
            h0 = _ctx.cur().heap.snapshot()
            y = contract.stub_yield(NS(_old=h0, _seg=h0, result=None, exc=None, **dict(ba0.arguments)))

            def _g():
                yield y
                return plain(*a, **k)
            return _g()
    stub.__name__ = contract.name
    stub.__qualname__ = getattr(real, "__qualname__", contract.name)
    stub._pyvc_stub = True
    return stub


# ---------------------------------------------------------------------------- running one path
def _declared_fields(pyclass):
    out = []
    for k in pyclass.__mro__:
        ci = REG.classes.get(k)
        if ci:
            for f, ty in list(ci.fields.items()) + list(ci.ghost.items()):
                out.append((ci.name, f, ty))
    return out


def _register_inputs(c, label, ty, value):
    try:
        t = ty.unwrap(value)
        c.inputs.append((label, ty, t))
        if ty in (T.Int, T.Str) and not z3.is_int_value(t) and not z3.is_string_value(t):
            c.note_term(t)
    except OutOfReach:
        pass
    if isinstance(value, ObjProxy):
        for owner, f, fty in _declared_fields(value._cls):
            arr = c.heap.array((owner, f), fty)
            c.inputs.append((f"{label}.{f}", fty, z3.Select(arr, value._ref)))


def check_invariants(c, obj, phase, assume=False):
    if not isinstance(obj, ObjProxy):
        return
    for k in obj._cls.__mro__:
        ci = REG.classes.get(k)
        if not ci:
            continue
        for name, f in ci.inv:
            c.spec_mode += 1
            try:
                v = f(obj)
            finally:
                c.spec_mode -= 1
            if assume:
                c.assume_value(v)
            else:
                c.oblige(f"inv:{ci.name}.{name}@{phase}", v, kind="inv")


def check_guarantee(c, obj, snapshot, phase):
    if not isinstance(obj, ObjProxy):
        return
    for k in obj._cls.__mro__:
        ci = REG.classes.get(k)
        if not ci:
            continue
        for name, f in ci.guarantee:
            c.spec_mode += 1
            try:
                v = f(old_view(obj, snapshot), obj)
            finally:
                c.spec_mode -= 1
            c.oblige(f"guar:{ci.name}.{name}@{phase}", v, kind="guarantee")


def _clauses(lst, prefix):
    out = []
    for i, e in enumerate(lst):
        out.append(e if isinstance(e, tuple) else (f"{prefix}{i}", e))
    return out


def run_path(contract, c, state):
    Heap(c)
    c.inputs = []
    if contract.kind == "lemma":
        contract.body()
        return "ok"
    f = state.get("self_real") or find_function(contract.owner, contract.name)
    # ---- pre-state
    if contract.kind == "ctor":
        selfv = new_object(contract.owner)
    elif contract.kind == "method":
        selfv = contract.self_ty.fresh("self")
    else:
        selfv = None
    args = {}
    for name, ty in contract.args.items():
        v = ty() if callable(ty) and not isinstance(ty, T.Ty) else ty.fresh(name)
        args[name] = v
    if selfv is not None and contract.kind != "ctor":
        _register_inputs(c, "self", contract.self_ty, selfv)
    for name, ty in contract.args.items():
        if isinstance(ty, T.Ty):
            _register_inputs(c, name, ty, args[name])
    focus = []
    if selfv is not None:
        focus.append(selfv)
    for v in args.values():
        if isinstance(v, ObjProxy):
            focus.append(v)
    s = NS(_old=None, _seg=None, self=selfv, result=None, exc=None, **args)
    state["last_ns"] = s
    if contract.setup is not None:
        extra = contract.setup(s) or []
        focus.extend(extra)
    if contract.focus is not None:
        focus.extend(contract.focus(s))
    s.focus = focus
    c.focus_objects = focus
    if contract.inv:
        for o in focus:
            if contract.kind == "ctor" and o is selfv:
                continue
            check_invariants(c, o, "entry", assume=True)
    for rn, rf in _clauses(contract.requires, "req"):
        c.spec_mode += 1
        try:
            c.assume_value(rf(s))
        finally:
            c.spec_mode -= 1
    if not state.get("vacuity_checked"):
        r = c.solver.check()
        if r == z3.unsat:
            raise SpecError(f"{contract.qualname}: precondition/invariant is unsatisfiable (vacuous contract)")
        state["vacuity_checked"] = True
    s._old = c.heap.snapshot()
    s._seg = s._old
    c.pre_state = s._old
    c.seg_state = s._old
    # ---- run
    call_args, call_kw = [], {}
    try:
        kwonly = {p.name for p in inspect.signature(f).parameters.values() if p.kind == p.KEYWORD_ONLY}
    except (TypeError, ValueError):
        kwonly = set()
    for an, av in args.items():
        if an in kwonly:
            call_kw[an] = av
        else:
            call_args.append(av)
    exc = None
    result = None
    try:
        if selfv is not None:
            result = f(selfv, *call_args, **call_kw)
        else:
            result = f(*call_args, **call_kw)
        if inspect.isgenerator(result):
            if contract.yields is None:
                raise SpecError(f"{contract.qualname} is a generator; contract needs yields=")
            result = _gen.drive(contract, c, s, result)
    except (PathEnd, OutOfReach, SpecError):
        raise
    except _gen.GeneratorRaised as ge:
        exc = ge.exc
    except Exception as e:          # noqa: BLE001 - exceptional path of the code under test
        if _engine_error(e):
            raise OutOfReach(f"engine: {type(e).__name__}: {e} @ {_where(e)}")
        exc = e
    # ---- post-state
    s.result = result
    s.exc = exc
    if exc is not None:
        for et, clauses in contract.raises.items():
            if isinstance(exc, et):
                for en, ef in _clauses(clauses, f"raises:{et.__name__}/"):
                    c.spec_mode += 1
                    try:
                        v = ef(s)
                    finally:
                        c.spec_mode -= 1
                    c.oblige(f"raises:{et.__name__}/{en}", v, kind="post")
                break
        else:
            c.oblige(f"noexc:{type(exc).__name__}", False, kind="safety",
                     info=f"{type(exc).__name__}: {exc} @ {_where(exc)}")
            return "exc"
    else:
        for en, ef in _clauses(contract.ensures, "ens"):
            c.spec_mode += 1
            try:
                v = ef(s)
            except (IndexError, KeyError) as ce:
                # the clause presupposes a shape of the result (e.g. `s.result[0]` is the event that must have been
                # emitted) that this path does not produce: the postcondition is false here, not a checker crash
                v = False
                c.oblige(en, v, kind="post", info=f"clause not evaluable on this path: {type(ce).__name__}: {ce} "
                                                  "(the result does not have the shape the clause speaks about)")
                continue
            finally:
                c.spec_mode -= 1
            c.oblige(en, v, kind="post")
    if contract.inv:
        for o in focus:
            if contract.kind == "ctor" and exc is not None and o is selfv:
                continue        # construction failed: no object exists
            check_invariants(c, o, "exit")
            if not (contract.kind == "ctor" and o is selfv):
                check_guarantee(c, o, s._seg, "exit")
    if not state.get("canary_done"):
        state["canary_done"] = True
        rec = c.oblige("canary", False, kind="canary")
        state["canary"] = rec["verdict"]
    return "exc" if exc is not None else "ok"


def _where(e):
    tb = e.__traceback__
    frames = []
    while tb is not None:
        fn = tb.tb_frame.f_code.co_filename
        if fn.startswith(REPO):
            frames.append(f"{os.path.relpath(fn, REPO)}:{tb.tb_lineno}")
        tb = tb.tb_next
    return frames[-1] if frames else "?"


class _Timeout(BaseException):       # not an Exception: code under test must not swallow it
    pass


def run_task(contract, timeout_s=600, keep_smt=0, dry=False):
    """Explore all paths of the function under `contract`; returns a JSON-able dict."""
    t0 = time.time()
    stats = {}
    state = {}
    res = {"task": contract.qualname, "kind": contract.kind, "tags": list(contract.tags),
           "obligations": [], "paths": 0, "outcomes": {}, "out_of_reach": [], "error": None}
    if contract.kind != "lemma":
        try:
            res["function"] = func_identity(find_function(contract.owner, contract.name))
        except SpecError as e:
            res["error"] = f"SpecError: {e}"
            return res
    patch = _Patch()

    def on_alarm(sig, frm):
        raise _Timeout()
    old_handler = signal.signal(signal.SIGALRM, on_alarm)
    signal.alarm(int(timeout_s))
    try:
        if any(o is contract.owner and n == contract.name for (o, n) in contract.uses):
            # recursion through the function's own contract (partial correctness): the TASK runs the real body, only
            # the nested calls go to the stub (without this the stub would be verified against itself - vacuous)
            state["self_real"] = find_function(contract.owner, contract.name)
        for (o, n) in contract.uses:
            cc = _spec.CONTRACTS.get((o, n))
            if cc is None:
                raise SpecError(f"{contract.qualname}: uses unknown contract {o}.{n}")
            st = make_stub(cc)
            if isinstance(o, type):
                for kk in o.__mro__:
                    if n in kk.__dict__:
                        if isinstance(kk.__dict__[n], property):
                            st = property(st)
                        elif isinstance(kk.__dict__[n], staticmethod):
                            st = staticmethod(st)
                        break
            patch.set(o, n, st)
        # instances of registered heap classes created by the code become fresh symbolic objects
        for kcls, ci in list(REG.classes.items()):
            if getattr(ci, "alloc", True) and "__new__" not in kcls.__dict__:
                patch.set(kcls, "__new__", staticmethod(_alloc_new))
        n_smt = [0]

        def run(c):
            c.dry = dry
            c.keep_smt = n_smt[0] < keep_smt
            try:
                return run_path(contract, c, state)
            finally:
                if contract.teardown is not None:
                    contract.teardown(state.get("last_ns"))
                if c.keep_smt and c.obligations:
                    n_smt[0] += 1
        results = explore(run, max_paths=contract.max_paths, stats=stats)
        for c, (kind, val) in results:
            res["paths"] += 1
            key = kind if kind != "ok" else str(val)
            res["outcomes"][key] = res["outcomes"].get(key, 0) + 1
            if kind == "oor":
                res["out_of_reach"].append(val)
            for ob in c.obligations:
                res["obligations"].append(ob)
        res["canary"] = state.get("canary")
    except SpecError as e:
        res["error"] = f"SpecError: {e}"
    except OutOfReach as e:
        res["out_of_reach"].append(str(e))
    except _Timeout:
        res["error"] = f"timeout after {timeout_s}s"
        res["timeout"] = True
        # keep what the completed paths established: an obligation REFUTED there is a violation whether or not the
        # remaining paths were explored (the task as a whole stays undecided)
        for c, (kind, val) in stats.get("_partial", []):
            res["paths"] += 1
            for ob in c.obligations:
                res["obligations"].append(ob)
        cur = stats.get("_current")
        if cur is not None and not any(cur is c for c, _ in stats.get("_partial", [])):
            for ob in list(getattr(cur, "obligations", [])):
                if ob.get("verdict"):
                    res["obligations"].append(ob)
    except Exception as e:      # noqa: BLE001
        res["error"] = f"crash: {type(e).__name__}: {e}\n{traceback.format_exc()[-1500:]}"
    finally:
        signal.alarm(0)
        signal.signal(signal.SIGALRM, old_handler)
        patch.undo()
        _ctx.set_cur(None)
    stats.pop("_partial", None)
    stats.pop("_current", None)
    res["stats"] = {k: (round(v, 3) if isinstance(v, float) else v) for k, v in stats.items()}
    res["wall_s"] = round(time.time() - t0, 3)
    return res

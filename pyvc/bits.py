"""Bitwise operations on symbolic ints (Python semantics: unbounded two's complement).

Model: an uninterpreted predicate `pyvc_bit(x, q)` ("bit q of x", q >= 0) and uninterpreted
result functions, each application constrained by its *defining fact* (true of the real operators
for all ints):

    bit(a | b, q) == bit(a, q) or  bit(b, q)          bit(a & b, q) == bit(a, q) and bit(b, q)
    bit(a ^ b, q) == bit(a, q) xor bit(b, q)          bit(2**k, q)  == (q == k)      2**k >= 1
    a & 2**k == (2**k if bit(a, k) else 0)            a & (2**k - 1) == a mod 2**k   (k concrete)
    a << k == a * 2**k     a >> k == floor(a / 2**k)  (k concrete for >>)

Facts are registered as hand-instantiated universally quantified assumptions (ctx.assume_value),
so they fire on the bit positions the code and the goals mention.  Anything else is OutOfReach.
"""
from __future__ import annotations

import z3

from . import ctx as _ctx
from .ctx import OutOfReach

_I = z3.IntSort()
BIT = z3.Function("pyvc_bit", _I, _I, z3.BoolSort())
POW2 = z3.Function("pyvc_pow2", _I, _I)
BOR = z3.Function("pyvc_bor", _I, _I, _I)
BAND = z3.Function("pyvc_band", _I, _I, _I)
BXOR = z3.Function("pyvc_bxor", _I, _I, _I)
POPCOUNT = z3.Function("pyvc_popcount", _I, _I)


def _c():
    return _ctx.cur()


def _term(x):
    from .sym import SymInt, SymBool, num_term
    if isinstance(x, (SymInt, SymBool)) or (isinstance(x, int)):
        return z3.simplify(num_term(x)[0])
    raise OutOfReach(f"bitwise op with operand of type {type(x).__name__}")


def _mk(t):
    from .sym import mk_num
    return mk_num(t)


def _fact(body, name="bitq"):
    """assume  forall q >= 0. body(q)  (hand-instantiated on the Int terms in play)"""
    from .spec import forall
    from .sym import mk_bool
    from . import types as T
    _c().assume_value(forall(T.Int, lambda q: mk_bool(z3.Implies(q.t >= 0, body(q.t))), name))


def _is_pow2_app(t):
    return z3.is_app(t) and t.num_args() == 1 and t.decl().name() == "pyvc_pow2"


def _const_bits_fact(t):
    """bits of a concrete non-negative constant"""
    c = _c()
    v = t.as_long()
    key = ("bits_const", v)
    if key in c._pool_seen:
        return
    c._pool_seen.add(key)
    if v < 0:
        raise OutOfReach("bitwise op with a negative constant")
    ones = [i for i in range(v.bit_length()) if (v >> i) & 1]
    _fact(lambda q: BIT(t, q) == (z3.Or(*[q == i for i in ones]) if ones else z3.BoolVal(False)), "bitc")


def zero_fact():
    """register `forall q >= 0. not bit(0, q)` on the current path (for specs that speak about
    freshly zeroed words without any bit operation having run)"""
    _const_bits_fact(z3.IntVal(0))


def _operand_facts(t):
    if z3.is_int_value(t):
        _const_bits_fact(t)


def _pinned(t):
    """the integer value of t if the path condition admits exactly one (else t itself)"""
    if z3.is_int_value(t):
        return t
    s = _c().solver
    if s.check() != z3.sat:
        return t
    v = s.model().eval(t, model_completion=True)
    if not z3.is_int_value(v):
        return t
    s.push()
    s.add(t != v)
    r = s.check()
    s.pop()
    return v if r == z3.unsat else t


def pow2(k):
    """2**k for a symbolic k (k >= 0 on this path)"""
    kt = _pinned(_term(k))
    if z3.is_int_value(kt):
        return z3.IntVal(1 << kt.as_long())
    r = POW2(kt)
    c = _c()
    key = ("pow2", r.get_id())
    if key not in c._pool_seen:
        c._pool_seen.add(key)
        c.assume(r >= 1)
        _fact(lambda q: BIT(r, q) == (q == kt), "bitp")
    return r


def shl(a, k):
    at, kt = _term(a), _term(k)
    if _c().branch(kt < 0, site="shift"):
        raise ValueError("negative shift count")
    kt = _pinned(kt)
    p = pow2(k)
    if z3.is_int_value(at) and at.as_long() == 1:
        return _mk(p)
    if z3.is_int_value(kt):
        return _mk(at * p)
    raise OutOfReach("x << k with symbolic k and x != 1")


def shr(a, k):
    at, kt = _term(a), _term(k)
    if _c().branch(kt < 0, site="shift"):
        raise ValueError("negative shift count")
    kt = _pinned(kt)
    if z3.is_int_value(kt):
        return _mk(at / z3.IntVal(1 << kt.as_long()))       # z3 div by a positive constant is floor
    raise OutOfReach("x >> k with symbolic k")


def _low_mask_bits(t):
    """k if t is the constant 2**k - 1 (k >= 0), else None"""
    if z3.is_int_value(t):
        v = t.as_long()
        if v >= 0 and (v & (v + 1)) == 0:
            return v.bit_length()
    return None


def band(a, b):
    at, bt = _term(a), _term(b)
    if z3.is_int_value(at) and z3.is_int_value(bt):
        return at.as_long() & bt.as_long()
    for x, m in ((at, bt), (bt, at)):
        k = _low_mask_bits(m)
        if k is not None:
            return _mk(x % z3.IntVal(1 << k)) if k > 0 else 0
        if z3.is_int_value(m) and m.as_long() > 0 and (m.as_long() & (m.as_long() - 1)) == 0:
            return _mk(z3.If(BIT(x, z3.IntVal(m.as_long().bit_length() - 1)), m, z3.IntVal(0)))
        if _is_pow2_app(m):
            return _mk(z3.If(BIT(x, m.arg(0)), m, z3.IntVal(0)))
    _operand_facts(at)
    _operand_facts(bt)
    r = BAND(at, bt)
    _fact(lambda q: BIT(r, q) == z3.And(BIT(at, q), BIT(bt, q)))
    _c().assume(z3.Implies(z3.Or(at >= 0, bt >= 0), r >= 0))
    return _mk(r)


def bor(a, b):
    at, bt = _term(a), _term(b)
    if z3.is_int_value(at) and z3.is_int_value(bt):
        return at.as_long() | bt.as_long()
    _operand_facts(at)
    _operand_facts(bt)
    r = BOR(at, bt)
    _fact(lambda q: BIT(r, q) == z3.Or(BIT(at, q), BIT(bt, q)))
    _c().assume(z3.Implies(z3.And(at >= 0, bt >= 0), z3.And(r >= at, r >= bt)))
    return _mk(r)


def bxor(a, b):
    at, bt = _term(a), _term(b)
    if z3.is_int_value(at) and z3.is_int_value(bt):
        return at.as_long() ^ bt.as_long()
    _operand_facts(at)
    _operand_facts(bt)
    r = BXOR(at, bt)
    _fact(lambda q: BIT(r, q) == z3.Xor(BIT(at, q), BIT(bt, q)))
    _c().assume(z3.Implies(z3.And(at >= 0, bt >= 0), r >= 0))
    return _mk(r)


def popcount(x):
    """number of one bits of a non-negative int (uninterpreted, >= 0; zero has none)"""
    t = _term(x)
    r = POPCOUNT(t)
    _c().assume(z3.And(r >= 0, z3.Implies(t == 0, r == 0)))
    return _mk(r)

"""Shims for stdlib modules used by the repo whose C implementations need concrete values.
Each shim behaves as the original on concrete arguments; on symbolic arguments it applies a
*trusted external contract* (listed in the evidence of every check that reaches it)."""
from __future__ import annotations

import bisect as _bisect
import hashlib as _hashlib
import heapq as _heapq
import math as _math
import types as _types

import z3

from . import ctx as _ctx
from .ctx import OutOfReach
from .sym import SymInt, SymReal, SymBool, SymStr, SymBytes, _SymNum, is_sym, mk_bool, mk_num, num_term
from .bag import HEAPQ

USED = set()        # names of trusted contracts actually exercised in this process


def _c():
    return _ctx.cur()


def _real(x):
    t, r = num_term(x)
    return t if r else z3.ToReal(t)


# ---------------------------------------------------------------------------- math
_UF = {}


def _uf(name, *sorts):
    if name not in _UF:
        _UF[name] = z3.Function(name, *sorts)
    return _UF[name]


class _MathShim:
    inf = _math.inf
    pi = _math.pi
    e = _math.e
    nan = _math.nan
    tau = _math.tau

    @staticmethod
    def floor(x):
        if isinstance(x, SymReal):
            return mk_num(z3.ToInt(x.t))
        if isinstance(x, SymInt):
            return x
        return _math.floor(x)

    @staticmethod
    def ceil(x):
        if isinstance(x, SymReal):
            return mk_num(-z3.ToInt(-x.t))
        if isinstance(x, SymInt):
            return x
        return _math.ceil(x)

    @staticmethod
    def isinf(x):
        return False if isinstance(x, _SymNum) else _math.isinf(x)

    @staticmethod
    def isnan(x):
        return False if isinstance(x, _SymNum) else _math.isnan(x)

    @staticmethod
    def isfinite(x):
        return True if isinstance(x, _SymNum) else _math.isfinite(x)

    @staticmethod
    def fabs(x):
        return abs(x) if isinstance(x, _SymNum) else _math.fabs(x)

    @staticmethod
    def _mono(name, x, increasing=True, positive=False, domain_pos=False):
        """uninterpreted real function with trusted facts: monotone (and sign) on its domain"""
        USED.add(f"math.{name}: {'strictly increasing' if increasing else 'strictly decreasing'}"
                 f"{', positive' if positive else ''}{' on (0,inf)' if domain_pos else ''} (uninterpreted)")
        f = _uf("math_" + name, z3.RealSort(), z3.RealSort())
        c = _c()
        key = "mathax_" + name
        if key not in c.names:
            c.names[key] = 1
            a, b = z3.Reals(f"{name}_a {name}_b")
            dom = z3.And(a > 0, b > 0) if domain_pos else z3.BoolVal(True)
            body = (f(a) < f(b)) if increasing else (f(a) > f(b))
            c.assume(z3.ForAll([a, b], z3.Implies(z3.And(dom, a < b), body)))
            if positive:
                c.assume(z3.ForAll([a], f(a) > 0))
        return SymReal(f(_real(x)))

    def sqrt(self, x):
        return self._mono("sqrt", x, True, False, True) if is_sym(x) else _math.sqrt(x)

    def log(self, x, *base):
        if is_sym(x):
            if base:
                raise OutOfReach("math.log with base on symbolic value")
            return self._mono("log", x, True, False, True)
        return _math.log(x, *base)

    def log10(self, x):
        return self._mono("log10", x, True, False, True) if is_sym(x) else _math.log10(x)

    def log2(self, x):
        return self._mono("log2", x, True, False, True) if is_sym(x) else _math.log2(x)

    def exp(self, x):
        if not is_sym(x):
            return _math.exp(x)
        r = self._mono("exp", x, True, True)
        c = _c()
        if "mathax_exp_at_0" not in c.names:      # one more trusted fact (additive): exp(0) == 1
            c.names["mathax_exp_at_0"] = 1
            USED.add("math.exp: exp(0) == 1")
            c.assume(_uf("math_exp", z3.RealSort(), z3.RealSort())(z3.RealVal(0)) == 1)
        return r

    def erfc(self, x):
        """float erfc UNDERFLOWS to 0.0 for large arguments, so the model is weaker than the real function:
        non-negative, non-increasing, strictly decreasing wherever it is still positive (code that guards
        `p <= 0` is therefore reachable, as it is with floats)"""
        if not is_sym(x):
            return _math.erfc(x)
        USED.add("math.erfc: non-negative, non-increasing, strictly decreasing where positive (float underflow to 0 allowed; uninterpreted)")
        f = _uf("math_erfc", z3.RealSort(), z3.RealSort())
        c = _c()
        if "mathax_erfc" not in c.names:
            c.names["mathax_erfc"] = 1
            a, b = z3.Reals("erfc_a erfc_b")
            c.assume(z3.ForAll([a, b], z3.Implies(a < b, z3.And(f(a) >= f(b), z3.Implies(f(b) > 0, f(a) > f(b))))))
            c.assume(z3.ForAll([a], f(a) >= 0))
        return SymReal(f(_real(x)))

    def __getattr__(self, name):
        f = getattr(_math, name)
        if not callable(f):
            return f

        def guarded(*a, **k):
            if any(is_sym(x) for x in a):
                raise OutOfReach(f"math.{name} on a symbolic value")
            return f(*a, **k)
        return guarded


MATH = _MathShim()


# ---------------------------------------------------------------------------- bisect
class _BisectShim:
    def __getattr__(self, name):
        f = getattr(_bisect, name)

        def guarded(*a, **k):
            from .heap import SymList
            if any(isinstance(x, SymList) or is_sym(x) for x in a):
                raise OutOfReach(f"bisect.{name} on symbolic arguments (needs a contract)")
            return f(*a, **k)
        return guarded


BISECT = _BisectShim()


# ---------------------------------------------------------------------------- hashlib
class _Digest:
    def __init__(self, algo, t):
        self.algo, self.t = algo, t

    def _val(self):
        USED.add(f"hashlib.{self.algo}: deterministic function of its input (uninterpreted), digest read as a non-negative int")
        f = _uf("hash_" + self.algo, z3.StringSort(), z3.IntSort())
        v = f(self.t)
        _c().assume(v >= 0)
        return v

    def hexdigest(self):
        return _HexDigest(self._val())

    def digest(self):
        return _HexDigest(self._val())


class _HexDigest:
    """opaque digest; int(d, 16), int.from_bytes(d[:k]) style reads give the uninterpreted value"""

    def __init__(self, v):
        self.v = v

    def __getitem__(self, sl):
        return self

    def __sym_int__(self):
        return mk_num(self.v)


class _HashlibShim:
    def _mk(self, algo):
        real = getattr(_hashlib, algo)

        def ctor(data=b"", **k):
            if isinstance(data, SymBytes):
                return _Digest(algo, data.t)
            if isinstance(data, SymStr):
                return _Digest(algo, data.t)
            return real(data, **k)
        return ctor

    def __getattr__(self, name):
        if name in ("md5", "sha1", "sha256", "sha512", "blake2b"):
            return self._mk(name)
        return getattr(_hashlib, name)


HASHLIB = _HashlibShim()

_MODULE_SHIMS = {_heapq: HEAPQ, _math: MATH, _bisect: BISECT, _hashlib: HASHLIB}


def patch_module_globals(d):
    for k, v in list(d.items()):
        if isinstance(v, _types.ModuleType) and v in _MODULE_SHIMS:
            d[k] = _MODULE_SHIMS[v]
        elif isinstance(v, (_types.BuiltinFunctionType, _types.FunctionType)):
            mod = getattr(v, "__module__", None)
            for m, shim in _MODULE_SHIMS.items():
                if mod in (m.__name__, "_" + m.__name__) and getattr(m, getattr(v, "__name__", ""), None) is v:
                    d[k] = getattr(shim, v.__name__)

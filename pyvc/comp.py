"""Run-time half of two loader rewrites (see loader.py rules 5 and 6): set displays and declared
list comprehensions over symbolic sequences.  On concrete values both behave exactly like the
original expression."""
from __future__ import annotations

import z3

from . import ctx as _ctx
from .ctx import OutOfReach, SpecError
from .sym import SymBool, SymInt, SymStr, is_sym
from .heap import ObjProxy, SymList, SymSet, Box, Seq, Set
from . import types as T

COMP_SPECS = {}      # (relpath, qualname, ordinal) -> element Ty of the resulting list


def mkset(*elts):
    """`{a, b, ..}`: a real set on concrete elements; a free-standing symbolic set when an element is
    a symbolic string / int (hashing it would need its concrete value)."""
    if not _ctx.active() or not any(is_sym(e) or isinstance(e, ObjProxy) for e in elts):
        return set(elts)
    if all(isinstance(e, (str, SymStr)) for e in elts):
        ety = T.Str
    elif all(isinstance(e, (int, SymInt)) and not isinstance(e, (bool, SymBool)) for e in elts):
        ety = T.Int
    else:
        raise OutOfReach("set display with symbolic elements that are neither all str nor all int")
    st = Set(ety)
    s = SymSet(Box(st.empty()), st)
    for e in elts:
        s.add(e)
    return s


def listcomp(key, f, it):
    """`[f(x) for x in it]` (one generator, no condition) declared in the spec with the element type
    of the result: over a sequence of symbolic length the result is a fresh sequence `out` with
    len(out) == len(it) and out[j] == f(it[j]) for every j (f is evaluated once, on a generic
    element; it must not fork or have effects)."""
    key = tuple(key)
    ety = COMP_SPECS.get(key)
    if not _ctx.active() or ety is None or not isinstance(it, SymList):
        return [f(x) for x in it]
    n = z3.simplify(it._len())
    if z3.is_int_value(n):
        return [f(x) for x in it]
    if not isinstance(ety, T.Ty) and callable(ety):
        ety = ety()         # lazily resolved element type
    c = _ctx.cur()
    out = c.fresh("comp", z3.SeqSort(ety.sort()))
    c.assume(z3.Length(out) == it._len())
    j = c.fresh("cj", z3.IntSort())
    before = len(c.decisions)
    c.spec_mode += 1
    try:
        img = ety.unwrap(f(it._elem.wrap(it.term[j])))
    finally:
        c.spec_mode -= 1
    if len(c.decisions) != before:
        raise OutOfReach(f"comprehension {key}: the element expression forks on a generic element")
    c.assume(z3.ForAll([j], z3.Implies(z3.And(j >= 0, j < it._len()), out[j] == img)))
    return SymList(Box(out), ety)


def declare_comp(relpath, qualname, ordinal, elem):
    from . import loader
    for mod, rp in loader.LOADED.items():
        if rp == relpath:
            raise SpecError(f"comprehension contract for {relpath} declared after the module was imported")
    COMP_SPECS[(relpath, qualname, ordinal)] = elem

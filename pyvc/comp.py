"""Run-time half of two loader rewrites (see loader.py rules 5 and 6): set displays and declared
list comprehensions over symbolic sequences.  On concrete values both behave exactly like the
original expression."""
from __future__ import annotations

import z3

from . import ctx as _ctx
from .ctx import OutOfReach, SpecError
from .sym import SymBool, SymInt, SymStr, is_sym
from .heap import ObjProxy, SymList, SymSet, Box, Seq, Set
from . import types as T

COMP_SPECS = {}      # (relpath, qualname, ordinal) -> element Ty of the resulting list


def mkset(*elts):
    """`{a, b, ..}`: a real set on concrete elements; a free-standing symbolic set when an element is
    a symbolic string / int (hashing it would need its concrete value)."""
    if not _ctx.active() or not any(is_sym(e) or isinstance(e, ObjProxy) for e in elts):
        return set(elts)
    if all(isinstance(e, (str, SymStr)) for e in elts):
        ety = T.Str
    elif all(isinstance(e, (int, SymInt)) and not isinstance(e, (bool, SymBool)) for e in elts):
        ety = T.Int
    else:
        raise OutOfReach("set display with symbolic elements that are neither all str nor all int")
    st = Set(ety)
    s = SymSet(Box(st.empty()), st)
    for e in elts:
        s.add(e)
    return s


def listcomp(key, f, it):
    """`[f(x) for x in it]` (one generator, no condition) declared in the spec with the element type
    of the result: over a sequence of symbolic length the result is a fresh sequence `out` with
    len(out) == len(it) and out[j] == f(it[j]) for every j (f is evaluated once, on a generic
    element; it must not fork or have effects)."""
    key = tuple(key)
    ety = COMP_SPECS.get(key)
    if not _ctx.active() or ety is None or not isinstance(it, SymList):
        return [f(x) for x in it]
    n = z3.simplify(it._len())
    if z3.is_int_value(n):
        return [f(x) for x in it]
    if not isinstance(ety, T.Ty) and callable(ety):
        ety = ety()         # lazily resolved element type
    if f.__code__.co_freevars:
        raise OutOfReach(f"comprehension {key}: the element expression reads enclosing locals")
    from .spec import forall, implies
    from .sym import mk_bool
    c = _ctx.cur()
    out = c.fresh("comp", z3.SeqSort(ety.sort()))
    src, elem_ty = it.term, it._elem            # the iterated sequence as it is now
    n = _len(src)
    c.assume(z3.Length(out) == n)

    def body(jv):
        img = ety.unwrap(f(elem_ty.wrap(_nth(src, jv.t))))
        return implies((0 <= jv) & mk_bool(jv.t < n), mk_bool(out[jv.t] == img))
    before = len(c.decisions)
    fact = forall(T.Int, body, "cj")            # evaluates body once on a generic index
    if len(c.decisions) != before:
        raise OutOfReach(f"comprehension {key}: the element expression forks on a generic element")
    c.assume_value(fact)                        # hand-instantiated like every other quantified assumption
    return SymList(Box(out), ety)


def _nth(t, i):
    """t[i] for 0 <= i < Length(t); an index into a slice is resolved to an index into the sliced
    sequence (for in-range i, extract(a, off, n)[i] is a[off + i])"""
    t = z3.simplify(t)
    if z3.is_app(t) and t.decl().kind() == z3.Z3_OP_SEQ_EXTRACT:
        return _nth(t.arg(0), t.arg(1) + i)
    if z3.is_app(t) and t.decl().kind() == z3.Z3_OP_ITE:
        return z3.If(t.arg(0), _nth(t.arg(1), i), _nth(t.arg(2), i))
    return t[i]


def _len(t):
    """Length(t) with the length of a slice written out (so no extract term reaches the solver)"""
    t = z3.simplify(t)
    if z3.is_app(t) and t.decl().kind() == z3.Z3_OP_SEQ_EXTRACT:
        a, off, n = t.arg(0), t.arg(1), t.arg(2)
        la = _len(a)
        return z3.If(z3.And(off >= 0, off <= la, n >= 0), z3.If(n < la - off, n, la - off), z3.IntVal(0))
    if z3.is_app(t) and t.decl().kind() == z3.Z3_OP_ITE:
        return z3.If(t.arg(0), _len(t.arg(1)), _len(t.arg(2)))
    if z3.is_app(t) and t.decl().kind() == z3.Z3_OP_SEQ_EMPTY:
        return z3.IntVal(0)
    return z3.Length(t)


def declare_comp(relpath, qualname, ordinal, elem):
    from . import loader
    for mod, rp in loader.LOADED.items():
        if rp == relpath:
            raise SpecError(f"comprehension contract for {relpath} declared after the module was imported")
    COMP_SPECS[(relpath, qualname, ordinal)] = elem


# ---------------------------------------------------------------------------- filter comprehensions
FILTER_SPECS = set()     # (relpath, qualname, ordinal) of `[x for x in seq if cond(x)]` declared as a filter


def declare_filter(relpath, qualname, ordinal):
    from . import loader
    for mod, rp in loader.LOADED.items():
        if rp == relpath:
            raise SpecError(f"filter contract for {relpath} declared after the module was imported")
    FILTER_SPECS.add((relpath, qualname, ordinal))


def _freeze_closure(f):
    """a copy of `f` whose closure cells hold the values the enclosing locals have NOW (the facts
    built from it are instantiated lazily, possibly after the enclosing function reassigned a local)"""
    import types as _pt
    if not f.__closure__:
        return f
    cells = tuple(_pt.CellType(c.cell_contents) for c in f.__closure__)
    return _pt.FunctionType(f.__code__, f.__globals__, f.__name__, f.__defaults__, cells)


def not_(x):
    """`not x` for the condition of a declared filter comprehension: the Python value on concrete
    operands, the (non-forking) symbolic negation on a symbolic bool"""
    if isinstance(x, SymBool):
        return ~x
    return not x


def _map_values_list(mi):
    """the values of an ordered symbolic dict in key order as a free-standing sequence: a fresh `vals`
    with len(vals) == len(keys) and vals[j] == val[keys[j]] for every j; a dict of concrete size is
    left to native iteration"""
    ks = mi.ks
    if z3.is_int_value(z3.simplify(ks._len())):
        return mi
    from .spec import forall, implies
    from .sym import mk_bool
    c = _ctx.cur()
    d = mi.d
    kt = ks.term
    vty = d._ty.val
    vals = c.fresh("mapvals", z3.SeqSort(vty.sort()))
    c.assume(z3.Length(vals) == z3.Length(kt))
    valarr = d._ty.dt.val(d.term)
    c.assume_value(forall(T.Int, lambda j: implies(mk_bool(z3.And(0 <= j.t, j.t < z3.Length(kt))),
                                                   mk_bool(vals[j.t] == z3.Select(valarr, kt[j.t]))), "mv"))
    return SymList(Box(vals), vty)


def filtercomp(key, pred, it):
    """`[x for x in it if pred(x)]` over a sequence of symbolic length: a fresh sequence `out` that is
    the order-preserving sub-sequence of the elements satisfying `pred`, axiomatised with two index
    maps (idx: position in out -> position in it, strictly increasing; pos: its inverse on the
    satisfying positions).  `pred` is evaluated on generic elements; it must not fork or have effects.
    On concrete lengths / outside a symbolic run the comprehension runs natively."""
    if _ctx.active() and type(it).__name__ == "_MapIter" and it.mode == "v" and it.d._ty.ordered:
        it = _map_values_list(it)       # `d.values()` of an ordered symbolic dict (additive: was native iteration)
    if not _ctx.active() or not isinstance(it, SymList):
        return [x for x in it if pred(x)]
    if z3.is_int_value(z3.simplify(it._len())):
        return [x for x in it if pred(x)]
    from .spec import forall, implies
    from .sym import mk_bool, to_z3_bool
    c = _ctx.cur()
    pred = _freeze_closure(pred)
    ety = it._elem
    src = it.term                       # the iterated sequence as it is now
    n = _len(src)
    out = c.fresh("filt", z3.SeqSort(ety.sort()))
    tagname = str(c.fresh("filt_f", z3.IntSort()))
    idx = z3.Function(tagname + "_idx", z3.IntSort(), z3.IntSort())
    pos = z3.Function(tagname + "_pos", z3.IntSort(), z3.IntSort())
    m = z3.Length(out)
    c.assume(z3.And(m >= 0, m <= n))

    def holds(term):
        before = len(c.decisions)
        v = pred(ety.wrap(term))
        if len(c.decisions) != before:
            raise OutOfReach(f"filter {tuple(key)}: the condition forks on a generic element")
        return to_z3_bool(v)

    def derived(t, f):
        """while a fact is instantiated on ground term t, the image f(t) becomes an instantiation term too
        (one level: never on a term that already is an image under idx/pos)"""
        if getattr(c, "inst_depth", 0) > 0 and not (z3.is_app(t) and t.decl().name() in (idx.name(), pos.name())):
            c.note_term(f(t))

    def kept(jv):
        j = jv.t
        i = idx(j)
        derived(j, idx)
        return implies(mk_bool(z3.And(0 <= j, j < m)), mk_bool(z3.And(
            0 <= i, i < n, out[j] == _nth(src, i), holds(out[j]), pos(i) == j)))

    def ordered(j1):
        return forall(T.Int, lambda j2: implies(
            mk_bool(z3.And(0 <= j1.t, j1.t < j2.t, j2.t < m)), mk_bool(idx(j1.t) < idx(j2.t))), "fj2")

    def complete(iv):
        i = iv.t
        j = pos(i)
        derived(i, pos)
        return implies(mk_bool(z3.And(0 <= i, i < n, holds(_nth(src, i)))), mk_bool(z3.And(
            0 <= j, j < m, out[j] == _nth(src, i), idx(j) == i)))
    for body, nm in ((kept, "fj"), (ordered, "fj1"), (complete, "fi")):
        c.assume_value(forall(T.Int, body, nm))
    return SymList(Box(out), ety)

"""Run-time half of two loader rewrites (see loader.py rules 5 and 6): set displays and declared
list comprehensions over symbolic sequences.  On concrete values both behave exactly like the
original expression."""
from __future__ import annotations

import z3

from . import ctx as _ctx
from .ctx import OutOfReach, SpecError
from .sym import SymBool, SymInt, SymStr, is_sym
from .heap import ObjProxy, SymList, SymSet, Box, Seq, Set
from . import types as T

COMP_SPECS = {}      # (relpath, qualname, ordinal) -> element Ty of the resulting list


def mkset(*elts):
    """`{a, b, ..}`: a real set on concrete elements; a free-standing symbolic set when an element is
    a symbolic string / int (hashing it would need its concrete value)."""
    if not _ctx.active() or not any(is_sym(e) or isinstance(e, ObjProxy) for e in elts):
        return set(elts)
    if all(isinstance(e, (str, SymStr)) for e in elts):
        ety = T.Str
    elif all(isinstance(e, (int, SymInt)) and not isinstance(e, (bool, SymBool)) for e in elts):
        ety = T.Int
    else:
        raise OutOfReach("set display with symbolic elements that are neither all str nor all int")
    st = Set(ety)
    s = SymSet(Box(st.empty()), st)
    for e in elts:
        s.add(e)
    return s


def listcomp(key, f, it):
    """`[f(x) for x in it]` (one generator, no condition) declared in the spec with the element type
    of the result: over a sequence of symbolic length the result is a fresh sequence `out` with
    len(out) == len(it) and out[j] == f(it[j]) for every j (f is evaluated once, on a generic
    element; it must not fork or have effects)."""
    key = tuple(key)
    ety = COMP_SPECS.get(key)
    if not _ctx.active() or ety is None or not isinstance(it, SymList):
        return [f(x) for x in it]
    n = z3.simplify(it._len())
    if z3.is_int_value(n):
        return [f(x) for x in it]
    if not isinstance(ety, T.Ty) and callable(ety):
        ety = ety()         # lazily resolved element type
    if f.__code__.co_freevars:
        raise OutOfReach(f"comprehension {key}: the element expression reads enclosing locals")
    from .spec import forall, implies
    from .sym import mk_bool
    c = _ctx.cur()
    out = c.fresh("comp", z3.SeqSort(ety.sort()))
    src, elem_ty = it.term, it._elem            # the iterated sequence as it is now
    n = _len(src)
    c.assume(z3.Length(out) == n)

    def body(jv):
        img = ety.unwrap(f(elem_ty.wrap(_nth(src, jv.t))))
        return implies((0 <= jv) & mk_bool(jv.t < n), mk_bool(out[jv.t] == img))
    before = len(c.decisions)
    fact = forall(T.Int, body, "cj")            # evaluates body once on a generic index
    if len(c.decisions) != before:
        raise OutOfReach(f"comprehension {key}: the element expression forks on a generic element")
    c.assume_value(fact)                        # hand-instantiated like every other quantified assumption
    return SymList(Box(out), ety)


def _nth(t, i):
    """t[i] for 0 <= i < Length(t); an index into a slice is resolved to an index into the sliced
    sequence (for in-range i, extract(a, off, n)[i] is a[off + i])"""
    t = z3.simplify(t)
    if z3.is_app(t) and t.decl().kind() == z3.Z3_OP_SEQ_EXTRACT:
        return _nth(t.arg(0), t.arg(1) + i)
    return t[i]


def _len(t):
    """Length(t) with the length of a slice written out (so no extract term reaches the solver)"""
    t = z3.simplify(t)
    if z3.is_app(t) and t.decl().kind() == z3.Z3_OP_SEQ_EXTRACT:
        a, off, n = t.arg(0), t.arg(1), t.arg(2)
        la = _len(a)
        return z3.If(z3.And(off >= 0, off <= la, n >= 0), z3.If(n < la - off, n, la - off), z3.IntVal(0))
    return z3.Length(t)


def declare_comp(relpath, qualname, ordinal, elem):
    from . import loader
    for mod, rp in loader.LOADED.items():
        if rp == relpath:
            raise SpecError(f"comprehension contract for {relpath} declared after the module was imported")
    COMP_SPECS[(relpath, qualname, ordinal)] = elem

"""Binary heaps (`heapq` on a list field) as multisets with a declared strict order.

Trusted external contract of heapq (listed in evidence): on a list that is only manipulated
through heapq, `heappush` adds one occurrence, `heappop` removes and returns an element m such
that no remaining element x has `x < m`, and `h[0]` is such an element.  The order `lt` used in
the contract is a *spec function*; that the element class's real `__lt__` equals it is a
separate proved obligation (e.g. Event.__lt__, _PriorityEntry ordering).
"""
from __future__ import annotations

import heapq as _heapq

import z3

from . import ctx as _ctx
from .ctx import OutOfReach
from .sym import mk_bool, mk_num
from .types import Ty, _dt_cache, _mangle
from .heap import Box, SymList


def _c():
    return _ctx.cur()


class Bag(Ty):
    """lt(a_term, b_term) -> z3 Bool over raw element terms (must not fork)."""

    def __init__(self, elem, lt, name=None):
        self.elem, self.lt = elem, lt
        self.name = f"Bag({elem.name})"
        k = ("bag", str(elem.sort()))
        if k not in _dt_cache:
            d = z3.Datatype(f"Bag_{_mangle(elem.sort())}")
            d.declare("mk", ("cnt", z3.ArraySort(elem.sort(), z3.IntSort())), ("size", z3.IntSort()))
            _dt_cache[k] = d.create()
        self.dt = _dt_cache[k]

    def sort(self):
        return self.dt

    def empty(self):
        return self.dt.mk(z3.K(self.elem.sort(), z3.IntVal(0)), z3.IntVal(0))

    def assume_wf(self, term):
        c = _c()
        dt = self.dt
        key = ("bagwf", term.get_id())
        if key in c._pool_seen:
            return
        c._pool_seen.add(key)
        c.assume(dt.size(term) >= 0)
        from .spec import forall, Raw, mk_bool
        cnt = dt.cnt(term)
        c.assume_value(forall(Raw(self.elem.sort()), lambda x: mk_bool(z3.Select(cnt, x) >= 0), "bx"))
        c.assume((dt.size(term) == 0) == (dt.cnt(term) == z3.K(self.elem.sort(), z3.IntVal(0))))

    def wrap(self, term, loc=None):
        return SymHeap(loc if loc is not None else Box(term), self)

    def unwrap(self, v):
        if isinstance(v, SymHeap):
            return v._loc.get()
        if isinstance(v, list) and not v:
            return self.empty()
        if isinstance(v, list):
            h = SymHeap(Box(self.empty()), self)
            for x in v:
                h.push(x)
            return h._loc.get()
        raise OutOfReach(f"{type(v).__name__} stored where {self.name} is declared")

    def concretize(self, model, term):
        from .heap import array_entries
        v = model.eval(term, model_completion=True)
        ent = array_entries(model.eval(self.dt.cnt(v), model_completion=True))
        if ent is None or not (z3.is_int_value(ent[0]) and ent[0].as_long() == 0):
            return {"__bag__": str(v)[:300]}
        out = []
        for k, n in ent[1]:
            if z3.is_int_value(n):
                out.extend([self.elem.concretize(model, k)] * max(0, min(n.as_long(), 4)))
        return {"__heap__": out[:32]}


class SymHeap:
    def __init__(self, loc, ty: Bag):
        self._loc, self._ty = loc, ty

    @property
    def term(self):
        return self._loc.get()

    def cnt(self, et):
        return z3.Select(self._ty.dt.cnt(self.term), et)

    def __sym_len__(self):
        self._ty.assume_wf(self.term)
        return mk_num(self._ty.dt.size(self.term))

    def __len__(self):
        t = z3.simplify(self._ty.dt.size(self.term))
        if z3.is_int_value(t):
            return t.as_long()
        raise OutOfReach("len() of a symbolic heap through the C API")

    def __bool__(self):
        self._ty.assume_wf(self.term)
        return _c().branch(self._ty.dt.size(self.term) != 0)

    def push(self, v):
        et = self._ty.elem.unwrap(v)
        m = self.term
        dt = self._ty.dt
        self._loc.set(z3.simplify(dt.mk(z3.Store(dt.cnt(m), et, z3.Select(dt.cnt(m), et) + 1), dt.size(m) + 1)))

    def _a_min(self):
        """a fresh element term m with cnt[m] > 0 and no element below it"""
        c = _c()
        self._ty.assume_wf(self.term)
        dt = self._ty.dt
        m = c.fresh("hmin", self._ty.elem.sort())
        self._ty.elem.assume_wf(m)
        c.assume(z3.Select(dt.cnt(self.term), m) > 0)
        from .spec import forall, Raw, mk_bool
        cnt0, lt = dt.cnt(self.term), self._ty.lt
        c.note_term(m)
        c.assume_value(forall(Raw(self._ty.elem.sort()), lambda x: mk_bool(
            z3.Implies(z3.Select(cnt0, x) > 0, z3.Not(lt(x, m)))), "hx"))
        return m

    def pop(self):
        c = _c()
        dt = self._ty.dt
        self._ty.assume_wf(self.term)
        if not c.branch(dt.size(self.term) > 0, site="heappop"):
            raise IndexError("index out of range (heappop on empty heap)")
        m = self._a_min()
        t = self.term
        self._loc.set(z3.simplify(dt.mk(z3.Store(dt.cnt(t), m, z3.Select(dt.cnt(t), m) - 1), dt.size(t) - 1)))
        c.ghost_args.setdefault("heap_pops", []).append(m)
        return self._ty.elem.wrap(m)

    def __getitem__(self, i):
        if not (isinstance(i, int) and i == 0):
            raise OutOfReach("heap list indexed at a position other than 0")
        c = _c()
        self._ty.assume_wf(self.term)
        if not c.branch(self._ty.dt.size(self.term) > 0, site="heap0"):
            raise IndexError("list index out of range (empty heap)")
        return self._ty.elem.wrap(self._a_min())

    def clear(self):
        self._loc.set(self._ty.empty())

    def __iter__(self):
        raise OutOfReach("iteration over a heap list needs a loop contract")

    def __sym_contains__(self, v):
        return self.cnt(self._ty.elem.unwrap(v)) > 0

    __hash__ = None

    def __format__(self, s):
        from .sym import MARK
        return MARK


class _HeapqShim:
    """module-level `heapq` seen by repo modules"""

    @staticmethod
    def heappush(h, x):
        if isinstance(h, SymHeap):
            return h.push(x)
        if isinstance(h, SymList):
            raise OutOfReach("heapq on a list field not declared as Bag(...)")
        return _heapq.heappush(h, x)

    @staticmethod
    def heappop(h):
        if isinstance(h, SymHeap):
            return h.pop()
        if isinstance(h, SymList):
            raise OutOfReach("heapq on a list field not declared as Bag(...)")
        return _heapq.heappop(h)

    @staticmethod
    def heapify(h):
        if isinstance(h, SymHeap):
            return None
        if isinstance(h, SymList):
            raise OutOfReach("heapq.heapify on a list field not declared as Bag(...)")
        return _heapq.heapify(h)

    def __getattr__(self, name):
        f = getattr(_heapq, name)

        def guarded(*a, **k):
            if any(isinstance(x, (SymHeap, SymList)) for x in a):
                raise OutOfReach(f"heapq.{name} on a symbolic heap")
            return f(*a, **k)
        return guarded


HEAPQ = _HeapqShim()

"""Rank-based model of ORDERED containers with distinct keys: `collections.OrderedDict`, and a `list`
that the code uses as an ordered set / queue of distinct items (`x in l`, append, remove, pop(0)).

z3's sequence theory cannot carry invariants such as "no duplicates" or "set(l) == keys(d)" through
`remove` / `pop(0)` (answers `unknown`), so order is represented by an injective position stamp instead:

    OMap(K, V)  =  dom: K->Bool, val: K->V, pos: K->Int, size: Int, hi: Int (next stamp)

insertion / move_to_end stamp the key with `hi` and increment it; "first" is the key with the least
stamp (a fresh witness + a hand-instantiated minimality fact).  What is NOT modelled raises OutOfReach:
duplicates in a list (append of a present item), positional access other than first/last, slicing,
iteration past the first element without a loop contract.  Typing assumption (like Map.assume_wf): stamps
of present keys are distinct and below `hi` - true of every value built by the operations below.
"""
from __future__ import annotations

import z3

from . import ctx as _ctx
from .ctx import OutOfReach
from .sym import MARK, mk_bool, mk_num
from .types import Ty, _dt_cache, _mangle
from .heap import Box, _default_of, array_entries


def _c():
    return _ctx.cur()


class OMap(Ty):
    """ordered dict (listlike=False) or list of distinct items (listlike=True, val is a dummy)"""

    def __init__(self, key, val=None, listlike=False):
        from . import types as T
        self.key = key
        self.val = val if val is not None else T.Bool
        self.listlike = listlike
        self.name = f"{'OSeq' if listlike else 'OMap'}({key.name}{'' if val is None else ',' + val.name})"
        k = ("omap", str(key.sort()), str(self.val.sort()))
        if k not in _dt_cache:
            d = z3.Datatype(f"OMap_{_mangle(key.sort())}_{_mangle(self.val.sort())}")
            d.declare("mk", ("dom", z3.ArraySort(key.sort(), z3.BoolSort())),
                      ("val", z3.ArraySort(key.sort(), self.val.sort())),
                      ("pos", z3.ArraySort(key.sort(), z3.IntSort())),
                      ("size", z3.IntSort()), ("hi", z3.IntSort()))
            _dt_cache[k] = d.create()
        self.dt = _dt_cache[k]

    def sort(self):
        return self.dt

    def mk(self, m, dom=None, val=None, pos=None, size=None, hi=None):
        dt = self.dt
        return z3.simplify(dt.mk(dom if dom is not None else dt.dom(m), val if val is not None else dt.val(m),
                                 pos if pos is not None else dt.pos(m), size if size is not None else dt.size(m),
                                 hi if hi is not None else dt.hi(m)))

    def empty(self):
        ks = self.key.sort()
        return self.dt.mk(z3.K(ks, z3.BoolVal(False)), z3.K(ks, _default_of(self.val.sort())),
                          z3.K(ks, z3.IntVal(0)), z3.IntVal(0), z3.IntVal(0))

    def assume_wf(self, term):
        """typing facts of one value (assumed once per term)"""
        c = _c()
        key = ("omapwf", term.get_id())
        if key in c._pool_seen:
            return
        c._pool_seen.add(key)
        dt = self.dt
        dom, pos, hi = dt.dom(term), dt.pos(term), dt.hi(term)
        c.assume(z3.And(dt.size(term) >= 0, hi >= 0))
        c.assume((dt.size(term) == 0) == (dom == z3.K(self.key.sort(), z3.BoolVal(False))))
        from .spec import forall
        c.assume_value(forall(self.key, lambda k: mk_bool(z3.Implies(
            z3.Select(dom, k.t), z3.And(z3.Select(pos, k.t) >= 0, z3.Select(pos, k.t) < hi))), "ok"))
        c.assume_value(forall(self.key, lambda a: forall(self.key, lambda b: mk_bool(z3.Implies(
            z3.And(z3.Select(dom, a.t), z3.Select(dom, b.t), a.t != b.t),
            z3.Select(pos, a.t) != z3.Select(pos, b.t))), "ob"), "oa"))

    def wrap(self, term, loc=None):
        return SymOMap(loc if loc is not None else Box(term), self)

    def unwrap(self, v):
        if isinstance(v, SymOMap):
            return v._loc.get()
        if isinstance(v, dict) and not self.listlike:
            d = SymOMap(Box(self.empty()), self)
            for k, x in v.items():
                d[k] = x
            return d._loc.get()
        if isinstance(v, (list, tuple)) and self.listlike:
            d = SymOMap(Box(self.empty()), self)
            for x in v:
                d.append(x)
            return d._loc.get()
        raise OutOfReach(f"{type(v).__name__} stored where {self.name} is declared")

    def concretize(self, model, term):
        v = model.eval(term, model_completion=True)
        dom = model.eval(self.dt.dom(v), model_completion=True)
        ent = array_entries(dom)
        if ent is None or not z3.is_false(ent[0]):
            return {"__map__": str(dom)[:300], "size": model.eval(self.dt.size(v), model_completion=True).as_long()}
        keys = [k for k, b in ent[1] if z3.is_true(b)][:32]
        keys.sort(key=lambda k: model.eval(z3.Select(self.dt.pos(v), k), model_completion=True).as_long())
        if self.listlike:
            return [self.key.concretize(model, k) for k in keys]
        return {"__dict__": [[self.key.concretize(model, k), self.val.concretize(model, z3.Select(self.dt.val(v), k))]
                             for k in keys]}


def OSeq(elem):
    """a list whose items are distinct (ordered set / FIFO queue of distinct items)"""
    return OMap(elem, None, listlike=True)


class SymOMap:
    def __init__(self, loc, ty: OMap):
        self._loc, self._ty = loc, ty

    @property
    def term(self):
        return self._loc.get()

    # ------------------------------------------------------------------ helpers
    def _k(self, k):
        kt = self._ty.key.unwrap(k)
        c = _c()
        if c.spec_mode == 0 and not z3.is_var(kt):
            c.note_term(kt)
        return kt

    def _has(self, kt):
        return z3.Select(self._ty.dt.dom(self.term), kt)

    def _wf(self):
        self._ty.assume_wf(self.term)

    def _extreme(self, least=True):
        """raw term of the first (least stamp) / last present key; the caller has established size > 0"""
        c = _c()
        self._wf()
        dt = self._ty.dt
        m = self.term
        dom, pos = dt.dom(m), dt.pos(m)
        w = c.fresh("ofirst" if least else "olast", self._ty.key.sort())
        c.assume(z3.Select(dom, w))
        c.note_term(w)
        from .spec import forall
        if least:
            c.assume_value(forall(self._ty.key, lambda k: mk_bool(z3.Implies(
                z3.Select(dom, k.t), z3.Select(pos, w) <= z3.Select(pos, k.t))), "omin"))
        else:
            c.assume_value(forall(self._ty.key, lambda k: mk_bool(z3.Implies(
                z3.Select(dom, k.t), z3.Select(pos, w) >= z3.Select(pos, k.t))), "omax"))
        return w

    def _nonempty(self):
        self._wf()
        return _c().branch(self._ty.dt.size(self.term) > 0, site="oempty")

    def _insert_new(self, kt, vt):
        self._wf()              # stamps of present keys are below `hi` (typing of the value being extended)
        m = self.term
        dt = self._ty.dt
        self._loc.set(self._ty.mk(m, dom=z3.Store(dt.dom(m), kt, z3.BoolVal(True)),
                                  val=z3.Store(dt.val(m), kt, vt), pos=z3.Store(dt.pos(m), kt, dt.hi(m)),
                                  size=dt.size(m) + 1, hi=dt.hi(m) + 1))

    def _remove(self, kt):
        m = self.term
        dt = self._ty.dt
        self._loc.set(self._ty.mk(m, dom=z3.Store(dt.dom(m), kt, z3.BoolVal(False)), size=dt.size(m) - 1))

    # ------------------------------------------------------------------ common
    def __sym_contains__(self, k):
        try:
            return self._has(self._k(k))
        except OutOfReach:
            return z3.BoolVal(False)

    def __contains__(self, k):
        return _c().branch(self.__sym_contains__(k))

    def __sym_len__(self):
        self._wf()
        return mk_num(self._ty.dt.size(self.term))

    def __len__(self):
        t = z3.simplify(self._ty.dt.size(self.term))
        if z3.is_int_value(t):
            return t.as_long()
        raise OutOfReach("len() of a symbolic ordered container through the C API")

    def __bool__(self):
        self._wf()
        return _c().branch(self._ty.dt.size(self.term) != 0)

    def __sym_bool__(self):
        return self._ty.dt.size(self.term) != 0

    def clear(self):
        self._loc.set(self._ty.empty())

    def copy(self):
        return SymOMap(Box(self.term), self._ty)

    def __iter__(self):
        if not self._nonempty():
            return
        yield self._ty.key.wrap(self._extreme(True))
        raise OutOfReach("iteration over an ordered container past its first element needs a loop contract")

    __hash__ = None

    def __repr__(self):
        return f"SymOMap({self.term})"

    def __format__(self, s):
        return MARK

    # ------------------------------------------------------------------ dict API (OrderedDict)
    def _dict_only(self, what):
        if self._ty.listlike:
            raise OutOfReach(f"{what} on a list modelled as ordered set")

    def __getitem__(self, k):
        if self._ty.listlike:
            if isinstance(k, int) and k == 0:
                if not self._nonempty():
                    raise IndexError("list index out of range (symbolic)")
                return self._ty.key.wrap(self._extreme(True))
            if isinstance(k, int) and k == -1:
                if not self._nonempty():
                    raise IndexError("list index out of range (symbolic)")
                return self._ty.key.wrap(self._extreme(False))
            raise OutOfReach("positional access into a list modelled as ordered set")
        kt = self._k(k)
        if not _c().branch(self._has(kt), site="key"):
            raise KeyError("symbolic key not in ordered dict")
        from .heap import MapValLoc
        return self._ty.val.wrap(z3.Select(self._ty.dt.val(self.term), kt), _OValLoc(self._loc, self._ty, kt))

    def get(self, k, default=None):
        self._dict_only("get")
        kt = self._k(k)
        if not _c().branch(self._has(kt), site="key"):
            return default
        return self._ty.val.wrap(z3.Select(self._ty.dt.val(self.term), kt), _OValLoc(self._loc, self._ty, kt))

    def __setitem__(self, k, v):
        self._dict_only("item assignment")
        kt = self._k(k)
        vt = self._ty.val.unwrap(v)
        if _c().branch(self._has(kt), site="key"):
            m = self.term
            self._loc.set(self._ty.mk(m, val=z3.Store(self._ty.dt.val(m), kt, vt)))     # position kept
        else:
            self._insert_new(kt, vt)

    def __delitem__(self, k):
        self._dict_only("del")
        kt = self._k(k)
        if not _c().branch(self._has(kt), site="key"):
            raise KeyError("symbolic key not in ordered dict")
        self._remove(kt)

    _MISSING = object()

    def pop(self, *a):
        if self._ty.listlike:
            return self._list_pop(*a)
        if not a:
            raise TypeError("pop expected at least 1 argument")
        kt = self._k(a[0])
        if not _c().branch(self._has(kt), site="key"):
            if len(a) < 2:
                raise KeyError("symbolic key not in ordered dict")
            return a[1]
        v = self._ty.val.wrap(z3.Select(self._ty.dt.val(self.term), kt))
        self._remove(kt)
        return v

    def move_to_end(self, k, last=True):
        self._dict_only("move_to_end")
        if not last:
            raise OutOfReach("move_to_end(last=False) is not modelled")
        kt = self._k(k)
        if not _c().branch(self._has(kt), site="key"):
            raise KeyError("symbolic key not in ordered dict")
        self._wf()
        m = self.term
        dt = self._ty.dt
        self._loc.set(self._ty.mk(m, pos=z3.Store(dt.pos(m), kt, dt.hi(m)), hi=dt.hi(m) + 1))

    def popitem(self, last=True):
        self._dict_only("popitem")
        if not self._nonempty():
            raise KeyError("popitem(): dictionary is empty")
        w = self._extreme(not last)
        v = self._ty.val.wrap(z3.Select(self._ty.dt.val(self.term), w))
        self._remove(w)
        return self._ty.key.wrap(w), v

    def keys(self):
        return self

    def items(self):
        self._dict_only("items")
        return _OItems(self, "kv")

    def values(self):
        self._dict_only("values")
        return _OItems(self, "v")

    # ------------------------------------------------------------------ list API (distinct items)
    def _list_only(self, what):
        if not self._ty.listlike:
            raise OutOfReach(f"{what} on an ordered dict")

    def append(self, v):
        self._list_only("append")
        kt = self._k(v)
        if _c().branch(self._has(kt), site="dup"):
            raise OutOfReach("append of an item that is already in a list modelled as ordered set (duplicate)")
        self._insert_new(kt, z3.BoolVal(True))

    def remove(self, v):
        self._list_only("remove")
        kt = self._k(v)
        if not _c().branch(self._has(kt), site="remove"):
            raise ValueError("list.remove(x): x not in list (symbolic)")
        self._remove(kt)

    def _list_pop(self, i=-1):
        if not (isinstance(i, int) and i in (0, -1)):
            raise OutOfReach("list.pop(i) other than pop(0) / pop() on a list modelled as ordered set")
        if not self._nonempty():
            raise IndexError("pop from empty list (symbolic)")
        w = self._extreme(i == 0)
        self._remove(w)
        return self._ty.key.wrap(w)


class _OValLoc:
    """location of d[k] inside an ordered map stored at `parent`"""
    __slots__ = ("parent", "oty", "k")

    def __init__(self, parent, oty, k):
        self.parent, self.oty, self.k = parent, oty, k

    def get(self):
        return z3.Select(self.oty.dt.val(self.parent.get()), self.k)

    def set(self, t):
        m = self.parent.get()
        self.parent.set(self.oty.mk(m, val=z3.Store(self.oty.dt.val(m), self.k, t)))


class _OItems:
    def __init__(self, d, mode):
        self.d, self.mode = d, mode

    def __iter__(self):
        d = self.d
        if not d._nonempty():
            return
        w = d._extreme(True)
        k = d._ty.key.wrap(w)
        v = d._ty.val.wrap(z3.Select(d._ty.dt.val(d.term), w), _OValLoc(d._loc, d._ty, w))
        yield v if self.mode == "v" else (k, v)
        raise OutOfReach("iteration over an ordered container past its first element needs a loop contract")

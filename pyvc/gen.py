"""Generators: atomic segments between yields, rely/guarantee havoc at each yield (DESIGN 2.5).

At a yield the driver (a) checks the yield clauses, the class invariants and two-state guarantees
of the focus objects (segment obligations), (b) replaces every heap array that another process
may write by a fresh one, (c) assumes invariants and guarantees across the gap (the rely), keeps
the fields of objects this process owns (`keep`), (d) resumes the real generator with the
value the contract prescribes.  Locals of the generator frame are untouched - a value read
before the yield is therefore stale afterwards, exactly as in the real interleaving.
"""
from __future__ import annotations

import hashlib
import linecache

import z3

from . import ctx as _ctx
from .ctx import OutOfReach, PathEnd, SpecError
from .heap import ObjProxy, REG, old_view
from .sym import to_z3_bool


class GeneratorRaised(Exception):
    def __init__(self, exc):
        self.exc = exc


class Yields:
    def __init__(self, at_yield=(), rely=(), resume=None, keep=None, stable=(), max_yields=12,
                 havoc="all"):
        self.at_yield = list(at_yield)      # [(name, fn(s, y))]
        self.rely = list(rely)              # [fn(s, before_ns, y)] extra assumptions after havoc
        self.resume = resume                # fn(s, y) -> value sent into the generator
        self.keep = keep                    # fn(s, y) -> objects whose fields survive the havoc
        self.stable = set(stable)           # (ClassName, field) keys never havoc'd
        self.max_yields = max_yields
        self.havoc = havoc


def _yield_site(gen):
    g = gen
    while getattr(g, "gi_yieldfrom", None) is not None and hasattr(g.gi_yieldfrom, "gi_frame"):
        g = g.gi_yieldfrom
    fr = g.gi_frame
    if fr is None:
        return "?"
    text = linecache.getline(fr.f_code.co_filename, fr.f_lineno).strip()
    return f"{fr.f_code.co_name}:{hashlib.sha1(text.encode()).hexdigest()[:6]}"


def const_keys():
    out = set()
    for ci in REG.classes.values():
        for f in getattr(ci, "const", ()):
            out.add((ci.name, f))
    return out


def drive(contract, c, s, gen):
    from .verify import check_invariants, check_guarantee
    ys = contract.yields
    send = None
    k = 0
    stable = set(ys.stable) | const_keys()
    while True:
        try:
            y = gen.send(send)
        except StopIteration as e:
            return e.value
        except (PathEnd, OutOfReach, SpecError):
            raise
        except Exception as e:      # noqa: BLE001
            from .verify import _engine_error, _where
            if _engine_error(e):
                raise OutOfReach(f"engine: {type(e).__name__}: {e} @ {_where(e)}")
            raise GeneratorRaised(e)
        k += 1
        if k > ys.max_yields:
            raise OutOfReach(f"more than {ys.max_yields} yields on one path (loop with yield needs an invariant)")
        site = _yield_site(gen)
        c.sig.append(("yield", site))
        tag = f"yield[{site}]"
        for name, f in ys.at_yield:
            c.spec_mode += 1
            try:
                v = f(s, y)
            finally:
                c.spec_mode -= 1
            c.oblige(f"{tag}/{name}", v, kind="yield")
        if contract.inv:
            for o in s.focus:
                check_invariants(c, o, tag)
                check_guarantee(c, o, s._seg, tag)
        # ---- havoc (the environment runs)
        before = c.heap.snapshot()
        kept = list(ys.keep(s, y)) if ys.keep else []
        if ys.havoc == "all":
            keys = [key for key in c.heap.st.arrays if key not in stable]
            # arrays not yet materialised are unconstrained anyway, but must change epoch too
            saved = {key: c.heap.st.arrays[key] for key in c.heap.st.arrays if key in stable}
            saved_ep = {key: c.heap.st.key_epoch.get(key, c.heap.st.base_epoch) for key in stable}
            c.heap.havoc(None)
            for key in stable:
                c.heap.st.key_epoch[key] = saved_ep[key]
            c.heap.st.arrays.update(saved)
        else:
            c.heap.havoc(set(ys.havoc))
        for o in kept:
            if not isinstance(o, ObjProxy):
                continue
            for kcls in o._cls.__mro__:
                ci = REG.classes.get(kcls)
                if not ci:
                    continue
                for fname, ty in list(ci.fields.items()) + list(ci.ghost.items()):
                    key = (ci.name, fname)
                    a_new = c.heap.array(key, ty)
                    a_old = c.heap.array(key, ty, before)
                    c.heap.st.arrays[key] = z3.Store(a_new, o._ref, z3.Select(a_old, o._ref))
        before_ns = type(s)(**{k2: v2 for k2, v2 in s.__dict__.items()})
        before_ns._seg = before
        for o in s.focus:
            check_invariants(c, o, "rely", assume=True)
            if isinstance(o, ObjProxy):
                for kcls in o._cls.__mro__:
                    ci = REG.classes.get(kcls)
                    if not ci:
                        continue
                    for name, f in ci.guarantee:
                        c.spec_mode += 1
                        try:
                            c.assume_value(f(old_view(o, before), o))
                        finally:
                            c.spec_mode -= 1
        for f in ys.rely:
            c.spec_mode += 1
            try:
                c.assume_value(f(s, before_ns, y))
            finally:
                c.spec_mode -= 1
        s._seg = c.heap.snapshot()
        c.seg_state = s._seg
        send = ys.resume(s, y) if ys.resume else None

"""PyVC - contract-based deductive verification of the real happy-simulator code.

The real functions under /repo are executed by CPython on symbolic proxy values
(sym.py, heap.py); every branch on a symbolic condition forks the path, all paths are
enumerated, loops are cut by inductive invariants (loader.py rewrites them mechanically),
callees under contract are replaced by their contracts, generators are split at their yields
with a rely/guarantee havoc, and every contract clause on every path becomes one SMT
obligation discharged by z3 (cvc5 as second back end).  See /verif/DESIGN.md.
"""

"""Counterexample decoding and native replay (DESIGN 2.8).

decode: z3 model -> JSON description of the arguments and of the part of the pre-state heap
reachable from them.  replay: build real objects from that description (cls.__new__ +
object.__setattr__), call the real function in CPython with no symbolic context, evaluate the
violated clause natively on (pre-state copy, post-state, result).
"""
from __future__ import annotations

import copy
import json
import os
import traceback

import z3

from . import ctx as _ctx
from .heap import REG, Ref, Seq, Map, Set, ObjProxy
from . import types as T


# ---------------------------------------------------------------------------- decode
def _refs_in(v, out):
    if isinstance(v, dict):
        if "__ref__" in v:
            out.append((v["__ref__"], v["cls"]))
        else:
            for x in v.values():
                _refs_in(x, out)
    elif isinstance(v, (list, tuple)):
        for x in v:
            _refs_in(x, out)


def decode_model(c, model, max_objects=24):
    pre = getattr(c, "pre_state", None)
    out = {"args": {}, "heap": {}}
    todo = []
    for label, ty, term in c.inputs:
        if "." in label:
            continue
        try:
            v = ty.concretize(model, term)
        except Exception as e:      # noqa: BLE001
            v = f"<undecodable {type(e).__name__}: {e}>"
        out["args"][label] = v
        _refs_in(v, todo)
    seen = set()
    while todo and len(seen) < max_objects and pre is not None:
        ref, clsname = todo.pop(0)
        if ref in seen or ref == 0:
            continue
        seen.add(ref)
        ci = REG.by_name.get(clsname)
        if ci is None:
            continue
        fields = {}
        for k in ci.pyclass.__mro__:
            ck = REG.classes.get(k)
            if not ck:
                continue
            for f, fty in list(ck.fields.items()) + list(ck.ghost.items()):
                try:
                    arr = pre.get((ck.name, f), fty)
                    v = fty.concretize(model, z3.Select(arr, z3.IntVal(ref)))
                except Exception as e:      # noqa: BLE001
                    v = f"<undecodable {type(e).__name__}: {e}>"
                fields[f] = v
                _refs_in(v, todo)
        out["heap"][str(ref)] = {"cls": clsname, "fields": fields, "ghost": sorted(
            g for k in ci.pyclass.__mro__ if REG.classes.get(k) for g in REG.classes[k].ghost)}
    return out


# ---------------------------------------------------------------------------- native objects
class _Builder:
    def __init__(self, desc, valtypes):
        self.desc = desc
        self.objs = {}
        self.valtypes = valtypes

    def value(self, v):
        if isinstance(v, dict):
            if "__ref__" in v:
                return self.obj(v["__ref__"], v["cls"])
            if "__val__" in v:
                cls = self.valtypes[v["__val__"]]
                o = object.__new__(cls)
                for f, x in v.items():
                    if f != "__val__":
                        object.__setattr__(o, f, self.value(x))
                return o
            if "__dict__" in v:
                return {_hashable(self.value(k)): self.value(x) for k, x in v["__dict__"]}
            if "__setv__" in v:
                return {_hashable(self.value(x)) for x in v["__setv__"]}
            if "__map__" in v or "__set__" in v:
                raise ValueError("map/set value with an infinite default cannot be rebuilt from the model")
            return {k: self.value(x) for k, x in v.items()}
        if isinstance(v, list):
            return [self.value(x) for x in v]
        if isinstance(v, tuple):
            return tuple(self.value(x) for x in v)
        if isinstance(v, str) and (v.startswith("<undecodable") or v.startswith("any:")):
            if v.startswith("any:"):
                return v
            raise ValueError(v)
        return v

    def obj(self, ref, clsname):
        if ref in self.objs:
            return self.objs[ref]
        ci = REG.by_name[clsname]
        o = object.__new__(ci.pyclass)
        self.objs[ref] = o
        d = self.desc["heap"].get(str(ref))
        if d is None:
            return o
        for f, v in d["fields"].items():
            if f in d.get("ghost", ()):
                continue
            try:
                object.__setattr__(o, f, self.value(v))
            except AttributeError:
                pass
        return o


def _atoms(root, limit=400):
    """ints / strings / objects occurring in a concrete state (quantifier domain for native clauses)"""
    out, seen, stack = [], set(), [root]
    have = set()
    while stack and len(out) < limit:
        x = stack.pop()
        if isinstance(x, (int, float, str)) and not isinstance(x, bool):
            k = (type(x).__name__, x)
            if k not in have:
                have.add(k)
                out.append(x)
                if isinstance(x, int):
                    for y in (x - 1, x + 1):
                        if ("int", y) not in have:
                            have.add(("int", y))
                            out.append(y)
            continue
        if x is None or isinstance(x, bool) or id(x) in seen:
            continue
        seen.add(id(x))
        if isinstance(x, dict):
            stack.extend(x.keys())
            stack.extend(x.values())
        elif isinstance(x, (list, tuple, set, frozenset)):
            stack.extend(x)
        elif REG.is_heap_class(type(x)):
            out.append(x)
            for k in type(x).__mro__:
                ci = REG.classes.get(k)
                if ci:
                    for f in ci.fields:
                        try:
                            stack.append(getattr(x, f))
                        except AttributeError:
                            pass
        elif hasattr(x, "__dict__") or hasattr(type(x), "__slots__"):
            for f in list(getattr(x, "__dict__", {})) + list(getattr(type(x), "__slots__", ())):
                try:
                    stack.append(getattr(x, f))
                except AttributeError:
                    pass
    return out


def _hashable(v):
    if isinstance(v, list):
        return tuple(_hashable(x) for x in v)
    return v


class NativeNS:
    def __init__(ns, pre_map, **kw):
        ns.__dict__.update(kw)
        ns._pre_map = pre_map

    def old(ns, obj):
        return ns._pre_map.get(id(obj), obj)

    pre = old


def native_replay(contract, clause_name, desc, valtypes):
    """-> dict(reproduced: bool|None, detail: str).  None = could not be decided natively."""
    from .verify import find_function, _clauses
    if _ctx.active():
        raise RuntimeError("native replay inside a symbolic context")
    try:
        b = _Builder(desc, valtypes)
        args = {k: b.value(v) for k, v in desc["args"].items()}
    except Exception as e:      # noqa: BLE001
        return {"reproduced": None, "detail": f"state not rebuildable: {type(e).__name__}: {e}"}
    selfv = args.pop("self", None)
    if contract.kind == "ctor":
        selfv = object.__new__(contract.owner)
    roots = [selfv] + list(args.values())
    memo = {}
    pre_copy = copy.deepcopy(roots, memo)
    pre_map = {}
    for oid, cp in memo.items():
        pre_map[oid] = cp
    f = find_function(contract.owner, contract.name)
    exc = None
    result = None
    try:
        call = [args[k] for k in contract.args if k in args]
        result = f(selfv, *call) if selfv is not None else f(*call)
        import inspect
        if inspect.isgenerator(result):
            return {"reproduced": None, "detail": "generator: native replay of yield havoc not attempted"}
    except Exception as e:      # noqa: BLE001
        exc = e
    s = NativeNS(pre_map, self=selfv, result=result, exc=exc, **args)
    from . import spec as _spec
    _spec.NATIVE_UNIVERSE[:] = _atoms([pre_copy, roots, result])
    kind, _, cname = clause_name.partition(":")
    try:
        if clause_name.startswith("noexc:"):
            ok = exc is None or type(exc).__name__ != clause_name.split(":", 1)[1]
            return {"reproduced": not ok, "detail": f"native call raised {type(exc).__name__}: {exc}" if exc else "no exception natively"}
        if clause_name.startswith("inv:"):
            cn, iname = clause_name[4:].split("@")[0].split(".", 1)
            ci = REG.by_name[cn]
            for n, fn_ in ci.inv:
                if n == iname:
                    targets = [o for o in roots if isinstance(o, ci.pyclass)]
                    vals = [bool(_tobool(fn_(o))) for o in targets]
                    return {"reproduced": not all(vals), "detail": f"invariant {iname} natively -> {vals}"}
            return {"reproduced": None, "detail": "invariant not found"}
        if clause_name.startswith("raises:"):
            et, cn = clause_name[7:].split("/", 1)
            for etype, cl in contract.raises.items():
                if etype.__name__ == et and isinstance(exc, etype):
                    for n, fn_ in _clauses(cl, f"raises:{et}/"):
                        if n == cn:
                            v = bool(_tobool(fn_(s)))
                            return {"reproduced": not v, "detail": f"clause natively -> {v}"}
            return {"reproduced": None, "detail": f"native run did not raise {et} (raised {type(exc).__name__ if exc else 'nothing'})"}
        if exc is not None:
            return {"reproduced": None, "detail": f"native run raised {type(exc).__name__}: {exc}"}
        for n, fn_ in _clauses(contract.ensures, "ens"):
            if n == clause_name:
                v = bool(_tobool(fn_(s)))
                return {"reproduced": not v, "detail": f"clause natively -> {v}; result={result!r}"}
        return {"reproduced": None, "detail": "clause kind not replayable natively"}
    except Exception as e:      # noqa: BLE001
        return {"reproduced": None, "detail": f"native clause evaluation failed: {type(e).__name__}: {e}"}


def _tobool(v):
    from .sym import SymBool, SymInt
    if isinstance(v, SymBool):
        t = z3.simplify(v.t)
        if z3.is_true(t):
            return True
        if z3.is_false(t):
            return False
        raise ValueError("clause not concrete natively")
    return v
